(* C28 driver.
   TABLE <Type>          | <exported methods of the real type, by reflection>
       model side: the exported self rows of the lock table REGENERATED FROM THE SOURCE (extracted
       [lock_table_x]) for the type and the types it embeds; spec: every such method has a row and every
       row of it satisfies [method_ok] (evaluated in Coq) (or is a recorded exception).
   LIN/STRESS/EBMID/SNAPMID ...  | race=<0|1> [at=...] [crash=1 ..|hang=1] [lin=<0|1> ops= ovl= [why=..] H <history>]
       The observation of a concurrent run is not a function of the input; the "model" is the set of
       admissible observations (no race report, no crash, linearizable history): model_obs echoes the
       observation when it is admissible and is the canonical admissible prefix otherwise.
       spec: race=0 and (lin=1 when a history was recorded).  The recorded history is searched for a
       linearization HERE as well, against sequential objects extracted from Coq: wlru = model/Wlru.v (C29),
       sem = model/Semaphore.v (C30), flushable/lazy = model/LinObjects.fl_step over model/Flushable.v (C22),
       pool = model/LinObjects.pl_step over model/SyncedPool.v + CrashBase.v (C25), buffer = model/Buffer.v (C14).  A case is admissible only if both searches find a linearization. *)
open Model
open Conv
open Drv

let str_of_codes (l : n list) : string =
  String.concat "" (List.map (fun c -> String.make 1 (Char.chr (ZA.to_int (z_of_n c)))) l)

(* rows of the regenerated table: (type, method, exported, method_ok) *)
let table = List.map (fun (((t, m), e), ok) -> (str_of_codes t, str_of_codes m, e, ok)) lock_table_x

(* which row types make up the method set of a reported type (struct embedding, outermost first) *)
let chain = function
  | "Flushable" -> ["Flushable"; "flushableReader"]
  | "LazyFlushable" -> ["LazyFlushable"; "Flushable"; "flushableReader"]
  | "closeDropWrapped" -> ["closeDropWrapped"; "LazyFlushable"; "Flushable"; "flushableReader"]
  | "Snapshot" -> ["Snapshot"; "flushableReader"]
  | t -> [t]

(* recorded finding (checks/C28.findings.json): EventsBuffer.IsBuffered / Total take no lock *)
let known_unlocked = [("EventsBuffer", "IsBuffered"); ("EventsBuffer", "Total")]

let rows_for t = List.filter (fun (ty, _, e, _) -> e && List.mem ty (chain t)) table

let has_tok t obs = List.mem t obs
let find_prefix p obs =
  List.fold_left (fun acc t ->
    let lp = String.length p in
    if acc = "" && String.length t >= lp && String.sub t 0 lp = p then String.sub t lp (String.length t - lp) else acc) "" obs

(* ------------------------------------------------------------------ linearizability search against the
   EXTRACTED sequential models (C29 weighted LRU, C30 semaphore arithmetic).  The history is in the
   observation:  H i<t>:<op,args> ... r<t>:<result> ...  in real-time order. *)
type hop = { ht : string; hinv : int; mutable hret : int; hop : string list; mutable hres : string }

let split_char c s = String.split_on_char c s

let parse_history (toks : string list) : hop array =
  let ops = ref [] and pos = ref 0 in
  List.iter (fun tok ->
    incr pos;
    match String.index_opt tok ':' with
    | None -> ()
    | Some i ->
      let hd = String.sub tok 0 i and tl = String.sub tok (i + 1) (String.length tok - i - 1) in
      let t = String.sub hd 1 (String.length hd - 1) in
      if hd.[0] = 'i' then ops := { ht = t; hinv = !pos; hret = max_int; hop = split_char ',' tl; hres = "" } :: !ops
      else (match List.find_opt (fun o -> o.ht = t && o.hret = max_int) !ops with
            | Some o -> o.hret <- !pos; o.hres <- tl
            | None -> ())) toks;
  Array.of_list (List.rev !ops)

(* Wing & Gong: pick any minimal operation (none of the remaining ones returned before it was invoked),
   apply it to the model, compare the result; memoise (done set, model state). *)
let linearizable (apply : 'st -> string list -> 'st * string) (st0 : 'st) (h : hop array) : bool =
  let n = Array.length h in
  let memo = Hashtbl.create 1024 in
  let rec dfs (don : int) (st : 'st) : bool =
    if don = (1 lsl n) - 1 then true
    else if Hashtbl.mem memo (don, st) then false
    else begin
      let minret = ref max_int in
      Array.iteri (fun i o -> if don land (1 lsl i) = 0 && o.hret < !minret then minret := o.hret) h;
      let ok = ref false in
      Array.iteri (fun i o ->
        if not !ok && don land (1 lsl i) = 0 && o.hinv <= !minret then begin
          let (st', r) = apply st o.hop in
          if r = o.hres && dfs (don lor (1 lsl i)) st' then ok := true
        end) h;
      if not !ok then Hashtbl.add memo (don, st) ();
      !ok
    end in
  n <= 30 && dfs 0 st0

let key_n (k : string) : n = n_of_z (ZA.of_int (Char.code k.[0]))
let key_s (k : n) : string = String.make 1 (Char.chr (ZA.to_int (z_of_n k)))
let val_n (v : string) : n = n_of_z (ZA.of_string ("0x" ^ v))
let val_s (v : n) : string = ZA.format "%x" (z_of_n v)
let num (x : n) = tok_of_n x
let b01 b = if b then "1" else "0"
let optv = function None -> "nil" | Some v -> val_s v

let lru_apply (c : (n, n) cache) (op : string list) : (n, n) cache * string =
  let run o = let ((c', r), _) = lru_step c o in (c', r) in
  match op with
  | ["Add"; k; v; w] -> (match run (OAdd (key_n k, val_n v, n_of_tok w)) with (c', RCount n) -> (c', num n) | (c', _) -> (c', "?"))
  | ["Get"; k] -> (match run (OGet (key_n k)) with (c', RVal v) -> (c', optv v) | (c', _) -> (c', "?"))
  | ["Peek"; k] -> (match run (OPeek (key_n k)) with (c', RVal v) -> (c', optv v) | (c', _) -> (c', "?"))
  | ["Contains"; k] -> (match run (OContains (key_n k)) with (c', RBool b) -> (c', b01 b) | (c', _) -> (c', "?"))
  | ["ContainsOrAdd"; k; v; w] ->
    (match run (OContainsOrAdd (key_n k, val_n v, n_of_tok w)) with (c', RFoundCount (b, n)) -> (c', b01 b ^ "," ^ num n) | (c', _) -> (c', "?"))
  | ["PeekOrAdd"; k; v; w] ->
    (match run (OPeekOrAdd (key_n k, val_n v, n_of_tok w)) with
     | (c', RPrevCount (p, n)) -> (c', optv p ^ "," ^ b01 (p <> None) ^ "," ^ num n) | (c', _) -> (c', "?"))
  | ["Remove"; k] -> (match run (ORemove (key_n k)) with (c', RBool b) -> (c', b01 b) | (c', _) -> (c', "?"))
  | ["RemoveOldest"] -> (match run ORemoveOldest with (c', RKV (Some (k, v))) -> (c', key_s k ^ "=" ^ val_s v) | (c', _) -> (c', "nil"))
  | ["GetOldest"] -> (match run OGetOldest with (c', RKV (Some (k, v))) -> (c', key_s k ^ "=" ^ val_s v) | (c', _) -> (c', "nil"))
  | ["Keys"] -> (match run OKeys with (c', RKeys l) -> (c', "[" ^ String.concat ";" (List.map key_s l) ^ "]") | (c', _) -> (c', "?"))
  | ["Len"] -> (c, num (lru_len c))
  | ["Weight"] -> (c, num (lru_weight c))
  | ["Total"] -> (c, num (lru_weight c) ^ "," ^ num (lru_len c))
  | ["Resize"; mw; ms] -> (match run (OResize (n_of_tok mw, z_of_tok ms)) with (c', RCount n) -> (c', num n) | (c', _) -> (c', "diverge"))
  | ["Purge"] -> (match run OPurge with (c', _) -> (c', "ok"))
  | _ -> (c, "?")

(* semaphore: (held, cap); Available wraps like the Go uint32/uint64 subtraction *)
let two32 = ZA.shift_left ZA.one 32 and two64 = ZA.shift_left ZA.one 64
let wrap m x = ZA.erem x m
let sem_apply ((h, c) : metric * metric) (op : string list) : (metric * metric) * string =
  match op with
  | [o; n; s] ->
    let w = { mnum = n_of_tok n; msize = n_of_tok s } in
    (match o with
     | "TryAcquire" | "Acquire0" | "AcquireB" | "AcquireZ" | "AcquireH" -> (match sem_try h c w with Some h' -> ((h', c), "1") | None -> ((h, c), "0"))
     | "Release" -> ((sem_release h c w, c), "ok")
     | "Processing" -> ((h, c), num h.mnum ^ "," ^ num h.msize)
     | "Available" ->
       ((h, c), ZA.to_string (wrap two32 (ZA.sub (z_of_n c.mnum) (z_of_n h.mnum))) ^ "," ^
                ZA.to_string (wrap two64 (ZA.sub (z_of_n c.msize) (z_of_n h.msize))))
     | "Terminate" -> ((h, { mnum = N0; msize = N0 }), "ok")
     | _ -> ((h, c), "?"))
  | _ -> ((h, c), "?")

(* ---- C22 Flushable / C25 SyncedPool objects assembled in model/LinObjects.v *)
let bs (x : string) : n list = List.init (String.length x) (fun i -> n_of_z (ZA.of_int (Char.code x.[i])))
let sb (l : n list) : string = str_of_codes l
let content_s (l : (n list * n list) list) : string =
  "[" ^ String.concat ";" (List.map (fun (k, v) -> sb k ^ "=" ^ sb v) l) ^ "]"
let optb = function None -> "nil" | Some v -> sb v

let rec batch_wops = function
  | k :: v :: r -> (if v = "~" then WDel (bs k) else WPut (bs k, bs v)) :: batch_wops r
  | _ -> []
let rec batch_writes = function
  | k :: v :: r -> (bs k, (if v = "~" then None else Some (bs v))) :: batch_writes r
  | _ -> []

let fl_apply (st : fstate) (op : string list) : fstate * string =
  let run o = fl_step st o in
  let ok o = (fst (run o), "ok") in
  match op with
  | ["Put"; k; v] -> ok (FPut (bs k, bs v))
  | ["Delete"; k] -> ok (FDelete (bs k))
  | ["Get"; k] -> (match run (FGet (bs k)) with (st', FRVal v) -> (st', optb v) | (st', _) -> (st', "?"))
  | ["Has"; k] -> (match run (FHas (bs k)) with (st', FRBool b) -> (st', b01 b) | (st', _) -> (st', "?"))
  | ["Flush"] -> ok FFlush
  | ["DropNotFlushed"] -> ok FDropNotFlushed
  | ["Pairs"] -> (match run FPairs with (st', FRNum x) -> (st', num x) | (st', _) -> (st', "?"))
  | ["SizeEst"] -> (match run FSizeEst with (st', FRNum x) -> (st', num x) | (st', _) -> (st', "?"))
  | ["Snap"] -> (match run FSnap with (st', FRContent l) -> (st', content_s l) | (st', _) -> (st', "?"))
  | "Batch" :: r -> ok (FBatch (batch_wops r))
  | ["Stat"] | ["MidFlush"; _] -> ok FStat   (* the flush of a lower layer of a stacked store is invisible from the top *)
  | ["Compact"] -> ok FCompact
  | ["InitDb"] -> ok FInitDb
  | _ -> (st, "?")

let flag_key = bs "flag"
let nm (x : string) : n = n_of_z (ZA.of_int (Char.code x.[0]))
let nms (x : n) : string = String.make 1 (Char.chr (ZA.to_int (z_of_n x)))

let pl_apply (st : pstate) (op : string list) : pstate * string =
  let run o = pl_step flag_key st o in
  let fmt (st', r) = (st', match r with
    | PROk -> "ok" | PRErr -> "err" | PRVal v -> optb v | PRBool b -> b01 b | PRNum x -> num x
    | PRNames l -> "[" ^ String.concat ";" (List.sort compare (List.map nms l)) ^ "]"
    | PRContent c ->
      let l = List.filter (fun (k, _) -> k <> flag_key) c in
      content_s (List.sort (fun (a, _) (b, _) -> compare (sb a) (sb b)) l)) in
  match op with
  | "H" :: d :: rest ->
    let d = nm d in
    (match rest with
     | ["Put"; k; v] -> fmt (run (PHPut (d, bs k, bs v)))
     | ["Delete"; k] -> fmt (run (PHDel (d, bs k)))
     | ["Get"; k] -> fmt (run (PHGet (d, bs k)))
     | ["Has"; k] -> fmt (run (PHHas (d, bs k)))
     | ["DropNotFlushed"] -> fmt (run (PHDropNotFlushed d))
     | ["Pairs"] -> fmt (run (PHPairs d))
     | ["SizeEst"] -> fmt (run (PHSizeEst d))
     | ["Snap"] -> fmt (run (PHSnap d))
     | "Batch" :: r -> fmt (run (PHBatch (d, batch_writes r)))
     | _ -> (st, "?"))
  | ["PFlush"; id] -> fmt (run (PFlush (bs id)))
  | ["PSize"] -> fmt (run PSize)
  | ["PNames"] -> fmt (run PNames)
  | ["POpen"; d] -> fmt (run (POpen (nm d)))
  | ["PUnder"; d] -> fmt (run (PUnder (nm d)))
  | "PInit" :: ds -> fmt (run (PInit (List.map nm ds)))
  | ["UGet"; d; k] -> fmt (run (PUGet (nm d, bs k)))
  | _ -> (st, "?")

(* the harness opens the stores a and b and their underlying databases before the goroutines start *)
let pool_start : pstate =
  List.fold_left (fun st o -> fst (pl_step flag_key st o)) p_init [POpen (nm "a"); PUnder (nm "a"); POpen (nm "b"); PUnder (nm "b")]

(* ---- C14 ordering buffer (model/Buffer.v, repaired version; the harness's callbacks never fail).
   The observation carries the events:  dag=<limitNum>/<limitSize>/<i>:<parent.parent>:<size>;... *)
type bdag = { blimN : n; blimS : n; bpars : n list array; bsize : n array }
let parse_dag (obs : string list) : bdag option =
  match find_prefix "dag=" obs with
  | "" -> None
  | d ->
    (match split_char '/' d with
     | [ln; ls; evs] ->
       let es = List.filter (fun x -> x <> "") (split_char ';' evs) in
       let parsed = List.map (fun e -> match split_char ':' e with
           | [_; ps; sz] -> (List.map n_of_tok (List.filter (fun x -> x <> "") (split_char '.' ps)), n_of_tok sz)
           | _ -> ([], n_of_tok "0")) es in
       Some { blimN = n_of_tok ln; blimS = n_of_tok ls;
              bpars = Array.of_list (List.map fst parsed); bsize = Array.of_list (List.map snd parsed) }
     | _ -> None)

let never _ _ = false
let buf_apply (d : bdag) (st : st) (op : string list) : st * string =
  let step o = buf_step never never true d.blimN d.blimS st o in
  match op with
  | ["Push"; i] ->
    let k = int_of_string i in
    let st' = step (OpPush (n_of_tok i, d.bpars.(k), d.bsize.(k))) in
    (st', (match buf_log st' with OPushed (_, ok, _, _) :: _ -> b01 ok | _ -> "?"))
  | ["Clear"] -> (step OpClear, "ok")
  | ["Total"] -> (st, num (buf_num (buf_inc st)) ^ "," ^ num (buf_size (buf_inc st)))
  | ["IsBuffered"; i] -> (st, b01 (List.exists (fun e -> buf_eid e = n_of_tok i) (buf_inc st)))
  | _ -> (st, "?")

let rec after_h = function [] -> [] | "H" :: r -> r | _ :: r -> after_h r

(* Some b = verdict of the search against the extracted model; None = component without one here *)
(* the configuration variant of the run, printed by the harness: cfg=<...> *)
let cfg_of obs = find_prefix "cfg=" obs
let cfg_num (c : string) (key : string) : string =     (* "w9.s0.cb1" "w" -> "9" *)
  List.fold_left (fun acc part ->
    let lk = String.length key in
    if acc = "" && String.length part > lk && String.sub part 0 lk = key
       && (match part.[lk] with '0'..'9' -> true | _ -> false)
    then String.sub part lk (String.length part - lk) else acc) "" (split_char '.' c)
let contains_sub (s : string) (sub : string) : bool =
  let n = String.length s and m = String.length sub in
  let rec go i = i + m <= n && (String.sub s i m = sub || go (i + 1)) in go 0

let extracted_lin (inp : string list) (obs : string list) : bool option =
  let cfg = cfg_of obs in
  match inp with
  | ["LIN"; "wlru"; _; _; _] when cfg_num cfg "w" <> "" ->
    let mw = ZA.of_string (cfg_num cfg "w") and ms = ZA.of_string (cfg_num cfg "s") in
    (match lru_new (n_of_z mw) (z_of_zz ms) with
     | Some c0 -> Some (linearizable lru_apply c0 (parse_history (after_h obs)))
     | None -> None)
  | ["LIN"; "sem"; _; _; _] when cfg_num cfg "n" <> "" ->
    let m a b = { mnum = n_of_tok a; msize = n_of_tok b } in
    Some (linearizable sem_apply (m "0" "0", m (cfg_num cfg "n") (cfg_num cfg "s")) (parse_history (after_h obs)))
  | ["LIN"; ("flushable" | "lazy"); _; _; _] when contains_sub cfg "closing" ->
    None   (* the run closes the store: use-after-Close results (errClosed / panic) are judged by the harness's reference only *)
  | ["LIN"; ("flushable" | "lazy"); _; _; _] | ["SNAPMID"] ->
    Some (linearizable fl_apply f_init (parse_history (after_h obs)))
  | ["LIN"; "pool"; _; _; _] ->
    (* stores opened before the run: cfg=stores:a.b.e *)
    let names = if contains_sub cfg "stores:" then split_char '.' (String.sub cfg 7 (String.length cfg - 7)) else ["a"; "b"] in
    let st0 = List.fold_left (fun st d -> fst (pl_step flag_key (fst (pl_step flag_key st (POpen (nm d)))) (PUnder (nm d)))) p_init names in
    Some (linearizable pl_apply st0 (parse_history (after_h obs)))
  | ["POOLMID"] | ["POOLRD"] ->
    let st3 = List.fold_left (fun st o -> fst (pl_step flag_key st o)) pool_start [POpen (nm "c"); PUnder (nm "c")] in
    Some (linearizable pl_apply st3 (parse_history (after_h obs)))
  | ["LIN"; "buffer"; _; _; _] | ["EBMID"] ->
    (match parse_dag obs with
     | Some d -> Some (linearizable (buf_apply d) buf_st0 (parse_history (after_h obs)))
     | None -> None)
  | _ -> None

let eval inp obs =
  match inp with
  | ["TABLE"; t] ->
    let rows = rows_for t in
    let names = List.sort_uniq compare (List.map (fun (_, m, _, _) -> m) rows) in
    let bad = List.filter (fun (ty, m, _, ok) -> not ok && not (List.mem (ty, m) known_unlocked)) rows in
    let missing = List.filter (fun m -> not (List.mem m names)) obs in
    { default_verdict with model_obs = names;
      spec_ok = Some (bad = [] && missing = []);
      nontrivial = rows <> [];
      note = (if bad = [] then "" else "rows violating the lock discipline: " ^
                String.concat "," (List.map (fun (ty, m, _, _) -> ty ^ "." ^ m) bad)) ^
             (if missing = [] then "" else " methods without a row: " ^ String.concat "," missing) }
  | _ when has_tok "skipped=1" obs ->
    { default_verdict with model_obs = obs; indeterminate = true; nontrivial = false;
      note = "not run: the component hung or crashed three times earlier in this run" }
  | "EBTORN" :: _ ->
    (* all buffered events have the same size s: every state of the buffer's cache has Size = Num*s, so every pair
       returned by Total() must (the recorded mid-push finding does not break this: Total() reads the pair in one
       critical section of the cache).  torn=1 = a pair the cache never held. *)
    let race = not (has_tok "race=0" obs) in
    let crash = has_tok "crash=1" obs || has_tok "hang=1" obs in
    let ok = (not race) && (not crash) && has_tok "torn=0" obs in
    { default_verdict with
      model_obs = (if ok then obs else ["race=0"; "torn=0"]);
      spec_ok = Some ok; nontrivial = true;
      note = (if has_tok "torn=1" obs then "Total() returned (Num,Size) = " ^ find_prefix "pair=" obs ^
                " with every buffered event of size " ^ find_prefix "eventsize=" obs ^ ": not Num*size, a pair the cache never held"
              else if race then "data race at " ^ find_prefix "at=" obs else if crash then "crash/hang" else "") }
  | kind :: _ when kind = "LIN" || kind = "STRESS" || kind = "EBMID" || kind = "SNAPMID" || kind = "POOLMID" || kind = "POOLRD" ->
    let race = not (has_tok "race=0" obs) in
    let crash = has_tok "crash=1" obs || has_tok "hang=1" obs in
    let wants_lin = kind <> "STRESS" in
    let lin_go = has_tok "lin=1" obs in
    (* second opinion on the recorded history from the extracted C29 / C30 models *)
    let lin_x = if crash then None else extracted_lin inp obs in
    let lin_ok = (not wants_lin) || (lin_go && lin_x <> Some false) in
    let ok = (not race) && (not crash) && lin_ok in
    let ovl = find_prefix "ovl=" obs in
    { default_verdict with
      model_obs = (if ok then obs else if wants_lin then ["race=0"; "lin=1"] else ["race=0"]);
      spec_ok = Some ok;
      nontrivial = (kind = "STRESS" || (ovl <> "" && ovl <> "0"));
      note = (if race then "data race reported by the race detector at " ^ find_prefix "at=" obs else "") ^
             (if crash then " crash/hang" else "") ^
             (if not lin_ok then " history is not linearizable " ^ find_prefix "why=" obs else "") ^
             (match lin_x with
              | Some b when b <> lin_go && wants_lin -> " (search against the extracted model says lin=" ^ b01 b ^ ", the harness says lin=" ^ b01 lin_go ^ ")"
              | _ -> "") }
  | _ -> failwith "bad case"

let () = run eval
