(* C28 driver.
   TABLE <Type>          | <exported methods of the real type, by reflection>
       model side: the exported self rows of the lock table REGENERATED FROM THE SOURCE (extracted
       [lock_table_x]) for the type and the types it embeds; spec: every such method has a row and every
       row of it satisfies [method_ok] (evaluated in Coq) (or is a recorded exception).
   LIN/STRESS/EBMID ...  | race=<0|1> [at=...] [crash=1 ..|hang=1] [lin=<0|1> ops= ovl= [why=..] H <history>]
       The observation of a concurrent run is not a function of the input; the "model" is the set of
       admissible observations (no race report, no crash, linearizable history): model_obs echoes the
       observation when it is admissible and is the canonical admissible prefix otherwise.
       spec: race=0 and (lin=1 when a history was recorded). *)
open Model
open Conv
open Drv

let str_of_codes (l : n list) : string =
  String.concat "" (List.map (fun c -> String.make 1 (Char.chr (Z.to_int (z_of_n c)))) l)

(* rows of the regenerated table: (type, method, exported, method_ok) *)
let table = List.map (fun (((t, m), e), ok) -> (str_of_codes t, str_of_codes m, e, ok)) lock_table_x

(* which row types make up the method set of a reported type (struct embedding, outermost first) *)
let chain = function
  | "Flushable" -> ["Flushable"; "flushableReader"]
  | "LazyFlushable" -> ["LazyFlushable"; "Flushable"; "flushableReader"]
  | "closeDropWrapped" -> ["closeDropWrapped"; "LazyFlushable"; "Flushable"; "flushableReader"]
  | "Snapshot" -> ["Snapshot"; "flushableReader"]
  | t -> [t]

(* recorded finding (checks/C28.findings.json): EventsBuffer.IsBuffered / Total take no lock *)
let known_unlocked = [("EventsBuffer", "IsBuffered"); ("EventsBuffer", "Total")]

let rows_for t = List.filter (fun (ty, _, e, _) -> e && List.mem ty (chain t)) table

let has_tok t obs = List.mem t obs
let find_prefix p obs =
  List.fold_left (fun acc t ->
    let lp = String.length p in
    if acc = "" && String.length t >= lp && String.sub t 0 lp = p then String.sub t lp (String.length t - lp) else acc) "" obs

let eval inp obs =
  match inp with
  | ["TABLE"; t] ->
    let rows = rows_for t in
    let names = List.sort_uniq compare (List.map (fun (_, m, _, _) -> m) rows) in
    let bad = List.filter (fun (ty, m, _, ok) -> not ok && not (List.mem (ty, m) known_unlocked)) rows in
    let missing = List.filter (fun m -> not (List.mem m names)) obs in
    { default_verdict with model_obs = names;
      spec_ok = Some (bad = [] && missing = []);
      nontrivial = rows <> [];
      note = (if bad = [] then "" else "rows violating the lock discipline: " ^
                String.concat "," (List.map (fun (ty, m, _, _) -> ty ^ "." ^ m) bad)) ^
             (if missing = [] then "" else " methods without a row: " ^ String.concat "," missing) }
  | kind :: _ when kind = "LIN" || kind = "STRESS" || kind = "EBMID" ->
    let race = not (has_tok "race=0" obs) in
    let crash = has_tok "crash=1" obs || has_tok "hang=1" obs in
    let wants_lin = kind <> "STRESS" in
    let lin_ok = (not wants_lin) || has_tok "lin=1" obs in
    let ok = (not race) && (not crash) && lin_ok in
    let ovl = find_prefix "ovl=" obs in
    { default_verdict with
      model_obs = (if ok then obs else if wants_lin then ["race=0"; "lin=1"] else ["race=0"]);
      spec_ok = Some ok;
      nontrivial = (kind = "STRESS" || (ovl <> "" && ovl <> "0"));
      note = (if race then "data race reported by the race detector at " ^ find_prefix "at=" obs else "") ^
             (if crash then " crash/hang" else "") ^
             (if not lin_ok then " history is not linearizable " ^ find_prefix "why=" obs else "") }
  | _ -> failwith "bad case"

let () = run eval
