From Coq Require Import ExtrOcamlBasic NArith List String.
From LV Require Import lib.Conv model.LockDiscipline gen.LockTable.
(* evaluated inside Coq: names as character codes, [method_ok] already computed per row *)
Definition lock_table_x : list (list N * list N * bool * bool) :=
  Eval vm_compute in map row_summary lock_table.
Extraction "model.ml" conv_roots lock_table_x.
