From Coq Require Import ExtrOcamlBasic NArith ZArith List String.
From LV Require Import lib.Conv model.LockDiscipline gen.LockTable model.Wlru model.Semaphore spec.KvSpec
  model.CrashBase model.SyncedPool model.LinObjects model.Buffer.
(* evaluated inside Coq: names as character codes, [method_ok] already computed per row *)
Definition lock_table_x : list (list N * list N * bool * bool) :=
  Eval vm_compute in map row_summary lock_table.
(* sequential models of other properties, used by the driver's linearizability search:
   C29's weighted LRU (keys and values are numbers here) and C30's semaphore arithmetic *)
Definition lru_new : N -> Z -> option (Wlru.cache N N) := @Wlru.new N N.
Definition lru_step : Wlru.cache N N -> Wlru.op N N -> Wlru.cache N N * Wlru.res N N * list (N * N) :=
  @Wlru.step N N N.eqb.
Definition lru_weight : Wlru.cache N N -> N := @Wlru.weight N N.
Definition lru_len : Wlru.cache N N -> N := @Wlru.len N N.
Definition sem_try : metric -> metric -> metric -> option metric := try_acquire true.
Definition sem_release (h c w : metric) : metric := Semaphore.held (fst (Semaphore.release (mkS h c nil nil) w)).
(* C14's ordering buffer (repaired version), callbacks as oracles over the log *)
Definition buf_step := Buffer.step.
Definition buf_st0 := Buffer.st0.
Definition buf_inc := Buffer.inc.
Definition buf_eid := Buffer.eid.
Definition buf_log := Buffer.log.
Definition buf_num := Buffer.total_num.
Definition buf_size := Buffer.total_size.
(* C22's Flushable and C25's SyncedPool, assembled into step functions in model/LinObjects.v *)
Extraction "model.ml" conv_roots lock_table_x lru_new lru_step lru_weight lru_len sem_try sem_release mkM mnum msize
  fl_step f_init pl_step p_init buf_step buf_st0 buf_inc buf_eid buf_log buf_num buf_size.
