From Coq Require Import ExtrOcamlBasic NArith List.
From LV Require Import lib.Conv model.Seeder spec.SeederSpec model.WorkersFifo.
Extraction "model.ml" conv_roots v_fixed v_old hhistory seeder_spec_ok seeder_spec_ok_stopped w_init wstep.
