(* C17 driver.  Input (see harness/cmd/vh/c17.go):
     threads limit cfgNum cfgSize cfgChunks nitems (key size mem)* ; r peer sid start stop num size chunks ; u peer ; h ; f
   model_obs = observation computed from the trace of the extracted model run under the
               harness' schedule (Seeder.hhistory);
   spec_ok   = SeederSpec.seeder_spec_ok on the implementation's observation. *)
open Model
open Conv
open Drv

let groups inp = match split_on ";" inp with [] -> ([], []) | h :: ops -> (h, List.filter (fun o -> o <> []) ops)
let nz i = n_of_z (Z.of_int i)
let zi n = Z.to_int (z_of_n n)

let parse_header h =
  match h with
  | threads :: limit :: cnum :: csize :: cchunks :: nitems :: rest ->
    (* "<threads>" or "<threads>:<MaxSenderTasks>" *)
    (* "<threads>" or "<threads>:<MaxSenderTasks>" or "<threads>:<MaxSenderTasks>:<memory of an empty payload>" *)
    let threads, maxtasks, membase = (match String.split_on_char ':' threads with
        | [t; m] -> t, int_of_string m, 1
        | [t; m; b] -> t, int_of_string m, int_of_string b
        | _ -> threads, 128, 1) in
    let cfg = { c_threads = n_of_tok threads; c_maxtasks = nz maxtasks; c_limit = n_of_tok limit;
                c_maxnum = n_of_tok cnum; c_maxsize = n_of_tok csize; c_maxchunks = n_of_tok cchunks;
                c_membase = nz membase } in
    let rec items k l = if k = 0 then [] else match l with
      | a :: b :: c :: r -> { it_key = n_of_tok a; it_size = n_of_tok b; it_mem = n_of_tok c } :: items (k - 1) r
      | _ -> failwith "short items" in
    (cfg, items (int_of_string nitems) rest)
  | _ -> failwith "bad header"

let hop_of = function
  | ["r"; p; sid; a; b; num; size; chunks] ->
    HReq { r_peer = n_of_tok p; r_sid = n_of_tok sid; r_start = n_of_tok a; r_stop = n_of_tok b;
           r_num = n_of_tok num; r_size = n_of_tok size; r_chunks = n_of_tok chunks; r_serial = nz 0 }
  | ["u"; p] -> HUnreg (n_of_tok p)
  | ["h"] -> HHold
  | ["f"] -> HFlush
  | "z" :: p :: n :: rest ->
    let rec reqs k l = if k = 0 then [] else (match l with
        | p :: sid :: a :: b :: num :: size :: chunks :: r ->
          { r_peer = n_of_tok p; r_sid = n_of_tok sid; r_start = n_of_tok a; r_stop = n_of_tok b;
            r_num = n_of_tok num; r_size = n_of_tok size; r_chunks = n_of_tok chunks; r_serial = nz 0 } :: reqs (k - 1) r
        | _ -> failwith "short race op") in
    HRace (n_of_tok p, reqs (int_of_string n) rest, nat_of_int 0)
  | _ -> failwith "bad op"

(* the harness' well-formedness rule: at most 6 requests per hold period *)
let well_formed hops =
  let rec go held n = function
    | [] -> true
    | HHold :: r -> if held then go held n r else go true 0 r
    | (HFlush | HRace _) :: r -> go false 0 r
    | HUnreg _ :: r -> go held n r
    | HReq _ :: r -> if held then (n < 6 && go held (n + 1) r) else go held n r
  in go false 0 hops

(* serial numbering of the harness: 0 = sentinel session; request k gets s, its sentinel s+1 *)
let sops_of maxchunks hops =
  let rec go s = function
    | [] -> []
    | HReq rq :: r -> SReq { rq with r_serial = nz s } :: go (s + 2) r
    | HUnreg p :: r -> SUnreg p :: go s r
    | HRace (p, reqs, pos) :: r ->
      (* blocker = s; i-th request = s+1+2i, its sentinel s+2+2i; last sentinel s+1+2n.  The
         unregistration was processed after [pos] entries of the request channel, where requests
         refused with ErrTooManyChunks never entered the channel *)
      let n = List.length reqs in
      let tagged = List.mapi (fun i rq -> { rq with r_serial = nz (s + 1 + 2 * i) }) reqs in
      let pos = int_of_nat pos in
      let rec ins entries taken = function
        | [] -> [SUnreg p]
        | rq :: more ->
          if taken >= pos then SUnreg p :: List.map (fun x -> SReq x) (rq :: more)
          else
            let used = if zi rq.r_chunks > maxchunks then 0 else 2 in   (* the request and its sentinel *)
            SReq rq :: ins entries (taken + used) more in
      ignore n; ins () 0 tagged @ go (s + 2 * n + 2) r
    | _ :: r -> go s r
  in go 1 hops

let keys_tok items =
  if items = [] then "-" else String.concat "." (List.map (fun x -> tok_of_n x.it_key) items)

let small cfg = zi cfg.c_maxtasks < 128

let obs_of_model cfg db hops obs =
  let ((qs, _), trace) = hhistory v_fixed cfg db hops in
  (* with a small MaxSenderTasks the pending size is sampled at an arbitrary moment (token p):
     judged by the specification only; the model side copies the implementation's samples *)
  let psamples = ref (List.filter (fun t -> t.[0] = 'p') obs) in
  let next_p () = match !psamples with t :: r -> psamples := r; t | [] -> "p?" in
  let rec qtoks hs qs = match hs, qs with
    | HReq _ :: hr, (held, p) :: qr ->
      let here = (if held then [if small cfg then next_p () else "q" ^ tok_of_n p] else []) in
      here @ qtoks hr qr
    | _ :: hr, _ :: qr -> qtoks hr qr
    | _, _ -> [] in
  let real p = zi p <> 0 && zi p <> 999999 in
  let xs = List.sort compare (List.filter_map (function ETooMany (p, s) when real p -> Some (zi s) | _ -> None) trace) in
  let ms = List.sort compare (List.filter_map (function EMisb (p, s) when real p -> Some (zi s) | _ -> None) trace) in
  let sent = List.filter_map (function ESent r when real r.rs_peer -> Some r | _ -> None) trace in
  let creators = List.sort_uniq compare (List.map (fun r -> zi r.rs_creator) sent) in
  let inc_toks c =
    ("C" ^ string_of_int c) ::
    List.filter_map (fun r -> if zi r.rs_creator = c then
        Some (Printf.sprintf "R%s:%s:%s:%s" (tok_of_n r.rs_req.r_serial) (tok_of_n r.rs_sid)
                (tok_of_bool r.rs_done) (keys_tok r.rs_items))
      else None) sent in
  qtoks hops qs @ List.map (fun s -> "X" ^ string_of_int s) xs @ List.map (fun s -> "M" ^ string_of_int s) ms
  @ List.concat (List.map inc_toks creators)

(* parse an observation back into the arguments of the specification *)
let parse_obs db obs =
  let item_of k = match List.find_opt (fun x -> tok_of_n x.it_key = k) db with
    | Some x -> x
    | None -> { it_key = n_of_tok k; it_size = nz 0; it_mem = nz 0 } in
  let pend = ref [] and xs = ref [] and ms = ref [] and incs = ref [] in
  List.iter (fun t ->
    let rest = String.sub t 1 (String.length t - 1) in
    match t.[0] with
    | 'q' | 'p' -> pend := n_of_tok rest :: !pend
    | 'X' -> xs := n_of_tok rest :: !xs
    | 'M' -> ms := n_of_tok rest :: !ms
    | 'C' -> incs := (n_of_tok rest, []) :: !incs
    | 'R' -> (match String.split_on_char ':' rest, !incs with
        | [tag; sid; d; ks], (c, rs) :: more ->
          let items = if ks = "-" then [] else List.map item_of (String.split_on_char '.' ks) in
          incs := (c, { o_tag = n_of_tok tag; o_sid = n_of_tok sid; o_done = bool_of_tok d; o_items = items } :: rs) :: more
        | _ -> failwith "bad R")
    | _ -> failwith "bad token") obs;
  (List.rev !xs, List.rev !ms, List.rev_map (fun (c, rs) -> (c, List.rev rs)) !incs, List.rev !pend)

let spec_on cfg db hops obs =
  try
    let (xs, ms, incs, pend) = parse_obs db obs in
    seeder_spec_ok cfg db (sops_of (zi cfg.c_maxchunks) hops) xs ms incs pend
  with _ -> false

(* ---------- the real utils/workers pool against the extracted WorkersFifo.wstep ---------- *)
let eval_pool header ops obs =
  let cap = (match header with [_; c] -> int_of_string c | _ -> failwith "bad pool header") in
  let s = ref (w_init (nat_of_int cap) (nat_of_int 1)) in
  let out = ref [] in
  let emit t = out := t :: !out in
  let stepm o = (match wstep !s o with Some s' -> s := s'; true | None -> false) in
  let worker () = (match !s.w_workers with [w] -> w | _ -> WGone) in
  let ntok () = emit ("n" ^ string_of_int (List.length !s.w_tasks)) in
  let settle () = (match worker (), !s.w_tasks with
      | WIdle, t :: _ -> if stepm (WTake (nat_of_int 0)) then emit ("s" ^ tok_of_n t)
      | _ -> ()) in
  let finish () = (match worker () with
      | WBusy t -> if stepm (WFinish (nat_of_int 0)) then Some t else None
      | _ -> None) in
  let quit_tail () =
    (* after quit select chooses at random between quit and a queued task: the implementation's
       X token says which tasks were still executed; replay exactly that *)
    ignore (stepm WQuit);
    let xs = (match List.find_opt (fun t -> t.[0] = 'X') obs with
        | Some t -> List.filter (fun x -> x <> "") (String.split_on_char ',' (String.sub t 1 (String.length t - 1)))
        | None -> []) in
    let done_ = ref [] in
    (match finish () with Some t -> done_ := [tok_of_n t] | None -> ());
    let rest = (match !done_, xs with [d], x :: r when x = d -> r | [], l -> l | _ -> xs) in
    List.iter (fun x ->
        match !s.w_tasks with
        | t :: _ when tok_of_n t = x ->
          if stepm (WTake (nat_of_int 0)) && stepm (WFinish (nat_of_int 0)) then done_ := !done_ @ [x]
        | _ -> ()) rest;
    ignore (stepm (WExit (nat_of_int 0)));
    emit ("X" ^ String.concat "," !done_) in
  let quit_done = ref false in
  List.iter (fun op -> if not !quit_done then begin
    (match op with
     | ["e"; id] ->
       let t = n_of_tok id in
       let ok = (match worker () with
           | WIdle -> stepm (WHandoff (t, nat_of_int 0))       (* idle worker: rendezvous *)
           | _ -> stepm (WEnqueue t)) in
       if ok then (emit "e+"; (match worker () with WBusy t' when t' = t -> emit ("s" ^ id) | _ -> ()))
       else emit "e-"
     | ["g"] -> (match finish () with Some t -> emit ("f" ^ tok_of_n t); settle () | None -> emit "g-")
     | ["d"] -> emit ("d" ^ string_of_int (List.length !s.w_tasks)); ignore (stepm WDrain)
     | ["q"] -> quit_done := true; quit_tail ()
     | _ -> failwith "bad pool op");
    ntok () end) ops;
  if not !quit_done then (quit_tail (); ntok ());
  let mo = List.rev !out in
  (* specification on the implementation's observation: executed tasks (f and X tokens) are an
     order-preserving sub-sequence of the accepted ones, each at most once; the channel never
     holds more than cap tasks *)
  let accepted = ref [] and executed = ref [] and capok = ref true in
  let ids = List.filter_map (function ["e"; id] -> Some id | _ -> None) ops in
  let pending_ids = ref ids in
  List.iter (fun t -> match t.[0] with
      | 'e' -> (match !pending_ids with id :: r -> pending_ids := r; if t = "e+" then accepted := !accepted @ [id] | [] -> ())
      | 'f' -> executed := !executed @ [String.sub t 1 (String.length t - 1)]
      | 'X' -> executed := !executed @ List.filter (fun x -> x <> "") (String.split_on_char ',' (String.sub t 1 (String.length t - 1)))
      | 'n' -> if int_of_string (String.sub t 1 (String.length t - 1)) > cap then capok := false
      | _ -> ()) obs;
  let rec sub a b = (match a, b with
      | [], _ -> true | _, [] -> false
      | x :: a', y :: b' -> if x = y then sub a' b' else sub a b') in
  (* Drain empties the channel: the count right after it is 0 *)
  let rec drain_ok = function
    | d :: n :: r when d.[0] = 'd' -> n = "n0" && drain_ok (n :: r)
    | _ :: r -> drain_ok r
    | [] -> true in
  { default_verdict with model_obs = mo; spec_ok = Some (sub !executed !accepted && !capok && drain_ok obs);
    model_spec_ok = true; nontrivial = List.length !executed > 1 }

let eval inp obs =
  let header, ops = groups inp in
  if (match header with "W" :: _ -> true | _ -> false) then eval_pool header ops obs else
  let (cfg, db) = parse_header header in
  (* a history ending with S = Stop() while responses are in flight: outside the model; the
     specification without the chunk-count clause judges what was sent *)
  if List.mem ["S"] ops || zi cfg.c_limit = 0 then begin
    (* (also: MaxPendingResponsesSize = 0, where the reader never serves anything) *)
    let hops = List.map hop_of (List.filter (fun o -> o <> ["S"]) ops) in
    let rec assignments = function
      | [] -> [[]]
      | HRace (p, reqs, _) :: r ->
        let tails = assignments r in
        let m = 2 * List.length reqs + 1 in
        List.concat (List.init (m + 1) (fun pos -> List.map (fun t -> HRace (p, reqs, nat_of_int pos) :: t) tails))
      | h :: r -> List.map (fun t -> h :: t) (assignments r) in
    let cands = assignments hops in
    (* up to 50000 assignments are searched (lazily: the search stops at the first that explains the
       log); the former cap of 200 fell back to "unregistration first everywhere" for histories with
       four races and produced a false alarm *)
    if List.length cands > 50000 then
      (* more race schedules than are searched: not judged (counted as indeterminate), never an alarm *)
      { default_verdict with model_obs = obs; spec_ok = None; model_spec_ok = true; nontrivial = false; indeterminate = true }
    else
    let ok = (try
        let toks = List.filter (fun t -> t <> "STOPPED" && t.[0] <> 'M' && t.[0] <> 'X') obs in
        let (_, _, incs, pend) = parse_obs db toks in
        List.exists (fun hs -> seeder_spec_ok_stopped cfg db (sops_of (zi cfg.c_maxchunks) hs) incs pend) cands
      with _ -> false) in
    let mo = if zi cfg.c_limit = 0 then obs_of_model cfg db hops obs else obs in
    { default_verdict with model_obs = mo; spec_ok = Some ok; model_spec_ok = true; nontrivial = false }
  end else
  let hops = List.map hop_of ops in
  if not (well_formed hops) then { default_verdict with model_obs = ["BAD"]; nontrivial = false }
  else begin
    (* races: enumerate how many entries of the request channel select took before the
       unregistration; the first assignment whose model observation equals the implementation's
       is the schedule that happened *)
    let rec assignments = function
      | [] -> [[]]
      | HRace (p, reqs, _) :: r ->
        let tails = assignments r in
        let m = 2 * List.length reqs + 1 in
        List.concat (List.init (m + 1) (fun pos -> List.map (fun t -> HRace (p, reqs, nat_of_int pos) :: t) tails))
      | h :: r -> List.map (fun t -> h :: t) (assignments r) in
    let cands = assignments hops in
    (* up to 50000 assignments are searched (lazily: the search stops at the first that explains the
       log); the former cap of 200 fell back to "unregistration first everywhere" for histories with
       four races and produced a false alarm *)
    if List.length cands > 50000 then
      { default_verdict with model_obs = obs; spec_ok = None; model_spec_ok = true; nontrivial = false; indeterminate = true }
    else
    let matching = (match List.find_opt (fun hs -> obs_of_model cfg db hs obs = obs) cands with
        | Some hs -> [hs] | None -> []) in
    let chosen = (match matching with hs :: _ -> hs | [] -> hops) in
    if Sys.getenv_opt "C17_RACE_STATS" <> None then
      List.iter (function HRace (_, reqs, pos) -> Printf.eprintf "RACE n=%d pos=%d matches=%d\n" (List.length reqs) (int_of_nat pos) (List.length matching) | _ -> ()) chosen;
    let mo = obs_of_model cfg db chosen obs in
    let (_, _, incs, _) = (try parse_obs db mo with _ -> ([], [], [], [])) in
    let resumed = List.exists (fun (_, rs) ->
        List.length (List.sort_uniq compare (List.map (fun x -> zi x.o_tag) rs)) > 1) incs in
    let spec = List.exists (fun hs -> spec_on cfg db hs obs) (if matching <> [] then matching else cands) in
    { default_verdict with model_obs = mo; spec_ok = Some spec;
      model_spec_ok = spec_on cfg db chosen mo; nontrivial = resumed }
  end

let () = run eval
