let () = Abft_drv.main "C04"
