From Coq Require Import ExtrOcamlBasic NArith List.
From LV Require Import lib.Conv model.VecIndex spec.FcSpec model.Abft model.AbftRun spec.AbftSpec model.AbftStore.
Extraction "model.ml" conv_roots mk_id mk_vals sample sample_old run run_inst start
  chk_start c02_trace c03_trace c04_trace fc_graph g_add fc_spec vev v_quorum
  srun store_start store_trace astore_start.
