(* Shared driver of C22 / C23 / C24.  The master copy is coq/extract/C24/kvdrv.ml; C22 and C23 hold copies
   refreshed by the pre_build_cmd of checks/C22.json and checks/C23.json (edit only the C24 file).
   Parses the case format documented in harness/kvh/kvh.go, steps the extracted MODEL
   (KvStack.run_op) and the extracted SPECIFICATION (KvStackSpec.spec_run_op) over the same
   operations and compares both with the implementation's observation tokens.
   No model logic here: parsing, printing, comparison. *)
open Model
open Conv

let bytes_of_tok (s : string) : n list =
  if s = "-" || s = "~" then []
  else if String.length s > 0 && s.[0] = '*' then begin
    match String.split_on_char '*' s with
    | [""; cnt; hh] ->
      let b = n_of_z (Z.of_int (int_of_string ("0x" ^ hh))) in
      List.init (int_of_string cnt) (fun _ -> b)
    | _ -> failwith ("bad bytes token " ^ s)
  end else bytes_of_hex s

let tok_of_bytes (l : n list) : string =
  match l with
  | [] -> "-"
  | b :: _ when List.length l > 32 && List.for_all (fun x -> x = b) l ->
    Printf.sprintf "*%d*%02x" (List.length l) (Z.to_int (z_of_n b))
  | _ -> hex_of_bytes l

let okey_of_tok (s : string) : n list option = if s = "~" then None else Some (bytes_of_tok s)
let tok_of_okey = function None -> "~" | Some k -> tok_of_bytes k

let handle_of_tok (s : string) : handle =
  match String.split_on_char '/' s with
  | d :: path -> { h_d = nat_of_tok d; h_path = List.map bytes_of_tok path }
  | [] -> failwith "bad handle"

(* header -> model state, spec state *)
let init_of_header (hd : string list) : st * sst =
  match hd with
  | [] -> failwith "empty header"
  | base :: layers ->
    let kind = if String.length base >= 3 then String.sub base 0 3 else base in
    let m0, s0 = (match kind with
      | "mem" -> Mem [], SEng []
      | "ldb" -> Eng (ELdb, []), SEng []
      | "pbl" -> Eng (EPbl, []), SEng []
      | _ -> failwith ("bad base " ^ base)) in
    List.fold_left (fun (m, s) l ->
      if l = "f" then (Flu ([], m), SFlu ([], s))
      else if l = "z" then (Lzy ([], false, m), SLzy ([], false, s))
      else if l = "s" then (Syn m, SSyn s)
      else if String.length l >= 1 && l.[0] = 't' then
        let p = bytes_of_tok (String.sub l 1 (String.length l - 1)) in (Tab (p, m), STab (p, s))
      else failwith ("bad layer " ^ l)) (m0, s0) layers

type pop = Op of op | Skip

let parse_op (t : string list) : pop =
  match t with
  | ["put"; h; k; v] -> Op (OPut (handle_of_tok h, bytes_of_tok k, bytes_of_tok v))
  | ["del"; h; k] -> Op (ODel (handle_of_tok h, bytes_of_tok k))
  | ["get"; h; k] -> Op (OGet (handle_of_tok h, bytes_of_tok k))
  | ["has"; h; k] -> Op (OHas (handle_of_tok h, bytes_of_tok k))
  | ["it"; h; p; s] -> Op (OIter (handle_of_tok h, okey_of_tok p, okey_of_tok s))
  | ["bnew"; b; h] -> Op (OBNew (nat_of_tok b, handle_of_tok h))
  | ["bput"; b; k; v] -> Op (OBPut (nat_of_tok b, bytes_of_tok k, bytes_of_tok v))
  | ["bdel"; b; k] -> Op (OBDel (nat_of_tok b, bytes_of_tok k))
  | ["bwrite"; b] -> Op (OBWrite (nat_of_tok b))
  | ["breset"; b] -> Op (OBReset (nat_of_tok b))
  | ["brep"; b] -> Op (OBReplay (nat_of_tok b))
  | ["brepto"; b1; b2] -> if b1 = b2 then Skip (* a batch is never replayed into itself *)
                          else Op (OBReplayTo (nat_of_tok b1, nat_of_tok b2))
  | ["flush"; d] -> Op (OFlush (nat_of_tok d))
  | ["drop"; d] -> Op (ODrop (nat_of_tok d))
  | ["nfp"; d] -> Op (ONfp (nat_of_tok d))
  | ["snap"; h] -> Op (OSnap (handle_of_tok h))
  | ["sget"; i; k] -> Op (OSGet (nat_of_tok i, bytes_of_tok k))
  | ["shas"; i; k] -> Op (OSHas (nat_of_tok i, bytes_of_tok k))
  | ["sit"; i; p; s] -> Op (OSIter (nat_of_tok i, okey_of_tok p, okey_of_tok s))
  | ["compact"; h; a; l] -> Op (OCompact (handle_of_tok h, okey_of_tok a, okey_of_tok l))
  | ["ecompact"; h; a; l] -> Op (OECompact (handle_of_tok h, okey_of_tok a, okey_of_tok l))
  | ["lit"; id; h; p; s] -> Op (OLit (nat_of_tok id, handle_of_tok h, okey_of_tok p, okey_of_tok s))
  | ["lnext"; id; n] -> Op (OLNext (nat_of_tok id, nat_of_tok n))
  | ["lrel"; id] -> Op (OLRel (nat_of_tok id))
  | ["init"; d] -> Op (OInit (nat_of_tok d))
  | ["stat"; h; p] -> Op (OStat (handle_of_tok h, nat_of_tok p))
  | ["reopen"] -> Skip      (* close the engine and reopen the same directory: the map persists *)
  | _ -> failwith ("bad op: " ^ String.concat " " t)

let toks_of_obs (o : obs) : string list =
  match o with
  | BGet None -> ["G"; "~"]
  | BGet (Some v) -> ["G"; tok_of_bytes v]
  | BHas b -> ["H"; if b then "1" else "0"]
  | BIter l -> "I" :: string_of_int (List.length l) ::
               List.concat_map (fun (k, v) -> [tok_of_bytes k; tok_of_bytes v]) l
  | BReplay l -> "R" :: string_of_int (List.length l) ::
                 List.concat_map (function WPut (k, v) -> ["P"; tok_of_bytes k; tok_of_bytes v]
                                         | WDel k -> ["D"; tok_of_bytes k]) l
  | BNfp n -> ["N"; tok_of_nat n]
  | BCompact (Some (lo, hi)) -> ["C"; tok_of_okey lo; tok_of_okey hi]
  | BCompact None -> ["C"; "!"; "!"]
  | BCompactErr ok -> ["E"; if ok then "ok" else "err"]
  | BStat ok -> ["S"; if ok then "ok" else "err"]
  | BLive (Some l) -> "L" :: string_of_int (List.length l) ::
                      List.concat_map (fun (k, v) -> [tok_of_bytes k; tok_of_bytes v]) l
  | BLive None -> ["L?"]
  | BNone -> ["X"]

(* take the implementation's tokens of one observation off the stream *)
let rec take n l = if n <= 0 then ([], l) else match l with [] -> ([], []) | x :: r -> let (a, b) = take (n - 1) r in (x :: a, b)
let next_chunk (impl : string list) : string list * string list =
  match impl with
  | [] -> ([], [])
  | ("G" | "H" | "N" | "E" | "S") :: _ -> take 2 impl
  | "C" :: _ -> take 3 impl
  | "X" :: r -> (["X"], r)
  | ("I" | "L") :: n :: r -> (match int_of_string_opt n with
      | Some n -> let (a, b) = take (2 * n) r in (List.hd impl :: string_of_int n :: a, b)
      | None -> (impl, []))
  | "R" :: n :: r -> (match int_of_string_opt n with
      | Some n ->
        let rec go i acc l = if i = 0 then (List.rev acc, l) else
          match l with
          | "P" :: k :: v :: r -> go (i - 1) (v :: k :: "P" :: acc) r
          | "D" :: k :: r -> go (i - 1) (k :: "D" :: acc) r
          | _ -> (List.rev acc @ l, []) in
        let (a, b) = go n [] r in ("R" :: string_of_int n :: a, b)
      | None -> (impl, []))
  | t :: r -> ([t], r)      (* ERR:... / PANIC ... : never matches a prediction *)

let ncmp a b = match lex_compare a b with Lt -> -1 | Eq -> 0 | Gt -> 1

(* what the property can mean for an iterator that stays alive across writes: strictly ascending
   keys, every key has the prefix and is >= prefix ++ start *)
let live_ok (prefix, start, last) (chunk : string list) : bool * n list option =
  match chunk with
  | "L" :: _ :: kvs ->
    let p = (match prefix with Some p -> p | None -> []) and s = (match start with Some s -> s | None -> []) in
    let rec go last = function
      | k :: _ :: r ->
        let k = bytes_of_tok k in
        if has_prefix p k && ncmp (p @ s) k <= 0 && (match last with None -> true | Some l -> ncmp l k < 0)
        then go (Some k) r else (false, last)
      | _ -> (true, last) in
    go last kvs
  | ["X"] -> (true, last)
  | _ -> (false, last)

(* UNIQ t1 t2 ... : reflect.go.  obs = U ok|err (OpenTables = uniqKeys.Check) then the raw content
   after writing value <i> at key 6b through the table MigrateTables created for tag i. *)
let rec eval (inp : string list) (impl : string list) : Drv.verdict =
  match inp with
  | "UNIQ" :: tags ->
    let tags = List.map bytes_of_tok tags in
    let used = table_tags tags in
    let u_model = if uniq_check used then "ok" else "err" in
    let puts = List.mapi (fun i p -> ["put"; "0/" ^ tok_of_bytes p; "6b"; Printf.sprintf "%02x" (i + 1)]) used in
    let hist = ["mem"] @ List.concat_map (fun o -> ";" :: o) (puts @ [["it"; "0"; "~"; "~"]]) in
    (match impl with
     | "U" :: u :: rest ->
       let v = eval_history hist rest in
       let sound = (u <> "ok") || incomparable_all used in
       { v with Drv.model_obs = "U" :: u_model :: v.Drv.model_obs;
                spec_ok = (match v.Drv.spec_ok with Some b -> Some (b && sound) | None -> Some sound);
                note = (if sound then v.Drv.note else "uniqKeys.Check accepted comparable prefixes") }
     | _ -> { Drv.default_verdict with model_obs = ["U"; u_model]; spec_ok = Some false })
  | "MIG" :: calls ->
    (* per call: the raw content after a probe write through every bound field (expected from THAT
       call's own tags via the extracted migrate_tables + the table model), then OpenTables' names *)
    let hex_of_string str = String.concat "" (List.map (fun c -> Printf.sprintf "%02x" (Char.code c)) (List.init (String.length str) (String.get str))) in
    let rest = ref impl and model = ref [] and ok = ref true and note = ref "" in
    List.iteri (fun ci c ->
      let tags = (match String.index_opt c ':' with
        | Some i -> let t = String.sub c (i + 1) (String.length c - i - 1) in
                    if t = "" then [] else List.map bytes_of_tok (String.split_on_char ',' t)
        | None -> []) in
      let bound = migrate_tables tags in
      let puts = List.map (fun (n, p) -> ["put"; "0/" ^ tok_of_bytes p; "6b"; Printf.sprintf "%02x" (int_of_nat n)]) bound in
      let hist = ["mem"] @ List.concat_map (fun o -> ";" :: o) (puts @ [["it"; "0"; "~"; "~"]]) in
      (* implementation tokens of this call: I n (k v)* then O ... *)
      let (chunk, r1) = next_chunk !rest in
      let v = eval_history hist chunk in
      model := !model @ v.Drv.model_obs;
      if v.Drv.spec_ok = Some false || v.Drv.model_obs <> chunk then begin
        if !ok then note := Printf.sprintf "call %d: fields are not bound to the prefixes of their own tags" (ci + 1);
        ok := false end;
      let names = List.sort_uniq compare (List.map (fun (_, p) -> hex_of_string "b/" ^ (if p = [] then "" else tok_of_bytes p)) bound) in
      let expect_o = "O" :: string_of_int (List.length names) :: names in
      let (got_o, r2) = take (List.length expect_o) r1 in
      model := !model @ expect_o;
      if got_o <> expect_o then begin
        if !ok then note := Printf.sprintf "call %d: OpenTables opened other databases than its own tags name" (ci + 1);
        ok := false end;
      rest := r2) calls;
    if !rest <> [] then ok := false;
    { Drv.default_verdict with model_obs = !model; spec_ok = Some !ok; note = !note }
  | _ -> eval_history inp impl

and eval_history (inp : string list) (impl : string list) : Drv.verdict =
  let parts = split_on ";" inp in
  let header, ops = (match parts with h :: o -> h, o | [] -> failwith "empty case") in
  let m0, s0 = init_of_header header in
  (* live-safe stack: decided by the extracted KvStack.stack_lsafe (an assumption of the correspondence,
     see model/KvStack.v), not here *)
  let lsafe = stack_lsafe m0 in
  let r = ref { r_store = m0; r_batches = []; r_snaps = []; r_lives = [] } in
  let sr = ref { ss_store = s0; ss_batches = []; ss_snaps = []; ss_lives = [] } in
  let rest = ref impl in
  let model_toks = ref [] and spec_ok = ref true and ms_ok = ref true and nontriv = ref false in
  let note = ref "" and flags = ref [] in
  let lives : (int, (n list option * n list option * n list option)) Hashtbl.t = Hashtbl.create 4 in
  let opno = ref 0 in
  let fail_spec what = if !spec_ok then note := Printf.sprintf "first spec mismatch at op %d (%s)" !opno what; spec_ok := false in
  (* ALIAS:<op> (an argument buffer was modified) and ERR:<op> (an error was returned) are never
     predicted: each is a failure of the specification on the implementation; they are taken off
     the stream so that the following observations stay aligned *)
  let skip_flags () =
    let rec go () = match !rest with
      | t :: r when String.length t > 4 && (String.sub t 0 4 = "ERR:" || (String.length t > 6 && String.sub t 0 6 = "ALIAS:")) ->
        fail_spec (if t.[0] = 'A' then "the store wrote into a byte slice passed to it: " ^ t else "unexpected error: " ^ t);
        flags := t :: !flags; rest := r; go ()
      | _ -> () in go () in
  List.iter (fun t ->
    incr opno;
    if t <> [] then
    match parse_op t with
    | Skip -> ()
    | Op o ->
      let (r', om) = run_op lsafe ideal_batch_size !r o in
      let (sr', os) = spec_run_op lsafe !sr o in
      let sr_before = !sr in
      r := r'; sr := sr';
      (match o with
       | OLit (i, _, p, s) -> Hashtbl.replace lives (int_of_nat i) (p, s, None)
       | OLRel i -> Hashtbl.remove lives (int_of_nat i)
       | _ -> ());
      List.iter2 (fun om os ->
        skip_flags ();
        let (chunk, rest') = next_chunk !rest in
        rest := rest';
        let mt = (match om with BLive None -> chunk | _ -> toks_of_obs om) in   (* not predicted: echoed *)
        model_toks := List.rev_append mt !model_toks;
        (* whatever the model predicts, a live iterator must stay ordered and inside its range *)
        (match o with
         | OLNext (i, _) ->
           (match Hashtbl.find_opt lives (int_of_nat i) with
            | Some (p, s, last) ->
              let (ok, last') = live_ok (p, s, last) chunk in
              Hashtbl.replace lives (int_of_nat i) (p, s, last');
              if not ok then fail_spec "live iterator: order/prefix"
            | None -> if chunk <> ["X"] then fail_spec "live iterator")
         | _ -> ());
        (match o, om with
         | OCompact (h, a, l), BCompact rng ->
           if not (compact_ok sr_before.ss_store h a l rng) then ms_ok := false;
           (match chunk with
            | ["C"; ilo; ihi] ->
              let irng = if ilo = "!" then None else Some (okey_of_tok ilo, okey_of_tok ihi) in
              if not (compact_ok sr_before.ss_store h a l irng) then fail_spec "compact range does not cover the table"
            | _ -> fail_spec "compact")
         | OECompact _, _ ->
           (match chunk with ["E"; _] -> () | _ -> fail_spec "ecompact")
         | OStat _, _ ->
           (match chunk with ["S"; _] -> () | _ -> fail_spec "stat")
         | OLNext _, BLive None -> ()
         | _ ->
           let st = toks_of_obs os in
           if st <> mt then ms_ok := false;
           if st <> chunk then fail_spec (String.concat " " t);
           (match om with
            | BIter (_ :: _) | BGet (Some _) | BReplay (_ :: _) | BLive (Some (_ :: _)) -> nontriv := true
            | BNfp n when n <> O -> nontriv := true
            | _ -> ()))) om os
  ) ops;
  skip_flags ();
  if !rest <> [] then begin
    (* extra implementation tokens (ERR:..., PANIC ...) *)
    fail_spec ("unexpected tokens: " ^ String.concat " " !rest)
  end;
  let model_obs = List.rev !model_toks in
  (* an ERR/PANIC token inside the stream makes impl <> model as well *)
  { Drv.default_verdict with model_obs; spec_ok = Some !spec_ok; model_spec_ok = !ms_ok;
    nontrivial = !nontriv; note = !note }
