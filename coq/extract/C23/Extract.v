From Coq Require Import ExtrOcamlBasic NArith List.
From LV Require Import lib.Conv lib.Bytes lib.Lex lib.SortedMap spec.KvSpec spec.KvOps spec.KvStackSpec
  model.PrefixRange model.Table model.Flushable model.KvStack.
Extraction "model.ml" conv_roots run_op spec_run_op compact_ok ideal_batch_size inc_prefix
  has_prefix lex_compare sview sh_view h_view uniq_check table_tags incomparable_all stack_lsafe migrate_tables.
