(* Strictly ascending association lists keyed by byte strings (lex order).
   This is the abstract ordered byte-string map of C22-C25: [sm_get/sm_put/sm_del],
   key filters (ranges), [merge_overlay] (an overlay with tombstones applied to a map) and
   extensionality: two sorted lists with the same lookups are equal. *)
From Coq Require Import NArith List Lia Bool.
From LV Require Import lib.Bytes lib.BytesFacts lib.Lex.
Import ListNotations.

Definition key := list N.

Section SortedMap.
Variable V : Type.
Definition smap := list (key * V).

Fixpoint sm_get (m : smap) (k : key) : option V :=
  match m with
  | [] => None
  | (k', v) :: m' =>
      match lex_compare k k' with
      | Eq => Some v
      | Lt => None
      | Gt => sm_get m' k
      end
  end.

Fixpoint sm_put (m : smap) (k : key) (v : V) : smap :=
  match m with
  | [] => [(k, v)]
  | (k', v') :: m' =>
      match lex_compare k k' with
      | Eq => (k, v) :: m'
      | Lt => (k, v) :: m
      | Gt => (k', v') :: sm_put m' k v
      end
  end.

Fixpoint sm_del (m : smap) (k : key) : smap :=
  match m with
  | [] => []
  | (k', v') :: m' =>
      match lex_compare k k' with
      | Eq => m'
      | Lt => m
      | Gt => (k', v') :: sm_del m' k
      end
  end.

Definition sm_filter (f : key -> bool) (m : smap) : smap := filter (fun kv => f (fst kv)) m.

Definition all_gt (k : key) (m : smap) : Prop := Forall (fun kv => lex_lt k (fst kv)) m.

Fixpoint sm_sorted (m : smap) : Prop :=
  match m with
  | [] => True
  | (k, _) :: m' => all_gt k m' /\ sm_sorted m'
  end.

Definition sm_keys (m : smap) : list key := map fst m.

(* ---------- basic facts ---------- *)

Lemma all_gt_weaken k k' m : lex_le k' k -> all_gt k m -> all_gt k' m.
Proof.
  intros L H. unfold all_gt in *. eapply Forall_impl; [|exact H].
  intros kv Hk. eapply lex_le_lt_trans; eauto.
Qed.

Lemma sm_sorted_tail kv m : sm_sorted (kv :: m) -> sm_sorted m.
Proof. destruct kv. cbn. tauto. Qed.

Lemma sm_get_none_le k0 m k : all_gt k0 m -> lex_le k k0 -> sm_get m k = None.
Proof.
  intros H L. destruct m as [|[k' v'] m']; cbn; auto.
  inversion H as [|x l Hk Hr]; subst. cbn in Hk.
  assert (Hlt : lex_lt k k') by (eapply lex_le_lt_trans; eauto).
  unfold lex_lt in Hlt. now rewrite Hlt.
Qed.

Lemma sm_get_In m k v : sm_sorted m -> (sm_get m k = Some v <-> In (k, v) m).
Proof.
  induction m as [|[k' v'] m IH]; intros S; cbn.
  - split; [discriminate | tauto].
  - destruct S as [G S]. specialize (IH S).
    destruct (lex_compare k k') eqn:E.
    + apply lex_compare_eq in E. subst k'. split.
      * intros H; inversion H; auto.
      * intros [H|H]; [inversion H; auto|].
        exfalso. unfold all_gt in G. rewrite Forall_forall in G.
        apply G in H. cbn in H. now apply lex_lt_irrefl in H.
    + split; [discriminate|]. intros [H|H].
      * inversion H; subst. rewrite lex_compare_refl in E. discriminate.
      * exfalso. unfold all_gt in G. rewrite Forall_forall in G. apply G in H. cbn in H.
        apply (lex_lt_asym k k'); auto.
    + rewrite IH. split; auto. intros [H|H]; auto.
      inversion H; subst. rewrite lex_compare_refl in E. discriminate.
Qed.

Lemma sm_get_In_key m k v : sm_get m k = Some v -> In (k, v) m.
Proof.
  induction m as [|[k' v'] m IH]; cbn; [discriminate|].
  destruct (lex_compare k k') eqn:E; try discriminate.
  - apply lex_compare_eq in E. subst. intros H; inversion H; auto.
  - auto.
Qed.

Lemma all_gt_In k m kv : all_gt k m -> In kv m -> lex_lt k (fst kv).
Proof. unfold all_gt. rewrite Forall_forall. auto. Qed.

(* ---------- extensionality ---------- *)

Lemma sm_ext m1 m2 : sm_sorted m1 -> sm_sorted m2 ->
  (forall k, sm_get m1 k = sm_get m2 k) -> m1 = m2.
Proof.
  revert m2. induction m1 as [|[k1 v1] m1 IH]; intros [|[k2 v2] m2] S1 S2 H; auto.
  - specialize (H k2). cbn in H. rewrite lex_compare_refl in H. discriminate.
  - specialize (H k1). cbn in H. rewrite lex_compare_refl in H. discriminate.
  - destruct S1 as [G1 S1], S2 as [G2 S2].
    destruct (lex_compare k1 k2) eqn:E.
    + apply lex_compare_eq in E. subst k2.
      pose proof (H k1) as H1. cbn in H1. rewrite lex_compare_refl in H1. inversion H1; subst v2.
      f_equal. apply IH; auto. intros k.
      destruct (lex_compare k k1) eqn:Ek.
      * apply lex_compare_eq in Ek. subst k.
        rewrite (sm_get_none_le k1 m1 k1), (sm_get_none_le k1 m2 k1); auto using lex_le_refl.
      * rewrite (sm_get_none_le k1 m1 k), (sm_get_none_le k1 m2 k); auto using lex_lt_le.
      * specialize (H k). cbn in H. now rewrite Ek in H.
    + specialize (H k1). cbn in H. rewrite lex_compare_refl, E in H. discriminate.
    + specialize (H k2). cbn in H. rewrite lex_compare_refl in H.
      apply lex_compare_gt_lt in E. rewrite E in H. discriminate.
Qed.

(* ---------- put ---------- *)

Lemma sm_put_In m k v kv : In kv (sm_put m k v) -> kv = (k, v) \/ In kv m.
Proof.
  induction m as [|[k' v'] m IH]; cbn.
  - intros [H|[]]; auto.
  - destruct (lex_compare k k'); cbn; intros [H|H]; auto.
    + destruct (IH H); auto.
Qed.

Lemma all_gt_put k0 m k v : all_gt k0 m -> lex_lt k0 k -> all_gt k0 (sm_put m k v).
Proof.
  intros G L. unfold all_gt. rewrite Forall_forall. intros kv H.
  apply sm_put_In in H as [->|H]; cbn; auto. eapply all_gt_In; eauto.
Qed.

Lemma sm_put_sorted m k v : sm_sorted m -> sm_sorted (sm_put m k v).
Proof.
  induction m as [|[k' v'] m IH]; cbn; intros S.
  - split; [constructor | exact I].
  - destruct S as [G S]. destruct (lex_compare k k') eqn:E; cbn.
    + apply lex_compare_eq in E. subst. auto.
    + split; [|split; auto]. constructor; [exact E|].
      eapply all_gt_weaken; [|exact G]. apply lex_lt_le. exact E.
    + split; auto. apply all_gt_put; auto. now apply lex_compare_gt_lt.
Qed.

Lemma sm_get_put m k v k2 :
  sm_get (sm_put m k v) k2 = if bytes_eqb k2 k then Some v else sm_get m k2.
Proof.
  induction m as [|[k' v'] m IH]; cbn.
  - destruct (lex_compare k2 k) eqn:E.
    + apply lex_compare_eq in E. subst. now rewrite (proj2 (bytes_eqb_eq k k) eq_refl).
    + destruct (bytes_eqb k2 k) eqn:B; auto. apply bytes_eqb_eq in B. subst.
      rewrite lex_compare_refl in E. discriminate.
    + destruct (bytes_eqb k2 k) eqn:B; auto. apply bytes_eqb_eq in B. subst.
      rewrite lex_compare_refl in E. discriminate.
  - destruct (bytes_eqb k2 k) eqn:B.
    + apply bytes_eqb_eq in B. subst k2.
      destruct (lex_compare k k') eqn:E; cbn.
      * now rewrite lex_compare_refl.
      * now rewrite lex_compare_refl.
      * rewrite E. exact IH.
    + assert (NE : k2 <> k) by (intros ->; rewrite (proj2 (bytes_eqb_eq k k) eq_refl) in B; discriminate).
      destruct (lex_compare k k') eqn:E; cbn.
      * apply lex_compare_eq in E. subst k'.
        destruct (lex_compare k2 k) eqn:E2; auto.
        apply lex_compare_eq in E2. contradiction.
      * destruct (lex_compare k2 k) eqn:E2.
        -- apply lex_compare_eq in E2. contradiction.
        -- assert (L : lex_lt k2 k') by (eapply lex_lt_trans; eauto).
           unfold lex_lt in L. now rewrite L.
        -- reflexivity.
      * destruct (lex_compare k2 k'); auto.
Qed.

(* ---------- del ---------- *)

Lemma sm_del_In m k kv : In kv (sm_del m k) -> In kv m.
Proof.
  induction m as [|[k' v'] m IH]; cbn; auto.
  destruct (lex_compare k k'); cbn; auto. intros [H|H]; auto.
Qed.

Lemma sm_del_sorted m k : sm_sorted m -> sm_sorted (sm_del m k).
Proof.
  induction m as [|[k' v'] m IH]; cbn; intros S; auto.
  destruct S as [G S]. destruct (lex_compare k k'); cbn; auto.
  split; auto. unfold all_gt. rewrite Forall_forall. intros kv H.
  apply sm_del_In in H. eapply all_gt_In; eauto.
Qed.

Lemma sm_get_del m k k2 : sm_sorted m ->
  sm_get (sm_del m k) k2 = if bytes_eqb k2 k then None else sm_get m k2.
Proof.
  induction m as [|[k' v'] m IH]; cbn; intros S.
  - now destruct (bytes_eqb k2 k).
  - destruct S as [G S]. specialize (IH S).
    destruct (bytes_eqb k2 k) eqn:B.
    + apply bytes_eqb_eq in B. subst k2.
      destruct (lex_compare k k') eqn:E; cbn.
      * apply lex_compare_eq in E. subst. apply (sm_get_none_le k' m k'); auto using lex_le_refl.
      * now rewrite E.
      * rewrite E. exact IH.
    + assert (NE : k2 <> k) by (intros ->; rewrite (proj2 (bytes_eqb_eq k k) eq_refl) in B; discriminate).
      destruct (lex_compare k k') eqn:E; cbn.
      * apply lex_compare_eq in E. subst k'.
        destruct (lex_compare k2 k) eqn:E2.
        -- apply lex_compare_eq in E2. contradiction.
        -- apply (sm_get_none_le k m k2); auto using lex_lt_le.
        -- reflexivity.
      * reflexivity.
      * destruct (lex_compare k2 k'); auto.
Qed.

(* ---------- filter ---------- *)

Lemma sm_filter_sorted f m : sm_sorted m -> sm_sorted (sm_filter f m).
Proof.
  induction m as [|[k v] m IH]; cbn; intros S; auto.
  destruct S as [G S]. destruct (f k); cbn; auto. split; auto.
  unfold all_gt. rewrite Forall_forall. intros kv H. apply filter_In in H as [H _].
  eapply all_gt_In; eauto.
Qed.

Lemma all_gt_filter f k m : all_gt k m -> all_gt k (sm_filter f m).
Proof.
  intros G. unfold all_gt. rewrite Forall_forall. intros kv H. apply filter_In in H as [H _].
  eapply all_gt_In; eauto.
Qed.

Lemma sm_get_filter f m k : sm_sorted m ->
  sm_get (sm_filter f m) k = if f k then sm_get m k else None.
Proof.
  unfold sm_filter. induction m as [|[k' v'] m IH]; cbn; intros S.
  - now destruct (f k).
  - destruct S as [G S]. specialize (IH S).
    destruct (f k') eqn:F; cbn.
    + destruct (lex_compare k k') eqn:E.
      * apply lex_compare_eq in E. subst. now rewrite F.
      * now destruct (f k).
      * exact IH.
    + destruct (lex_compare k k') eqn:E; auto.
      * apply lex_compare_eq in E. subst. rewrite F in *. exact IH.
      * rewrite IH. destruct (f k); auto. apply (sm_get_none_le k' m k); auto using lex_lt_le.
Qed.

Lemma sm_filter_cons_eq f k (v : V) m :
  sm_filter f ((k, v) :: m) = if f k then (k, v) :: sm_filter f m else sm_filter f m.
Proof. reflexivity. Qed.

Lemma sm_filter_filter f g m : sm_filter f (sm_filter g m) = sm_filter (fun k => g k && f k) m.
Proof.
  unfold sm_filter. induction m as [|[k v] m IH]; cbn; auto.
  destruct (g k); cbn; [destruct (f k); cbn|]; now rewrite IH.
Qed.

Lemma sm_filter_ext f g m : (forall k, f k = g k) -> sm_filter f m = sm_filter g m.
Proof. intros H. unfold sm_filter. apply filter_ext. intros [k v]. apply H. Qed.

End SortedMap.

Arguments sm_get {V}. Arguments sm_put {V}. Arguments sm_del {V}. Arguments sm_filter {V}.
Arguments sm_sorted {V}. Arguments all_gt {V}. Arguments sm_keys {V}.

(* ---------- overlay ---------- *)

Section Overlay.
Variable V : Type.

(* an overlay entry: Some v = written value, None = tombstone *)
Definition ov_apply (m : smap V) (e : key * option V) : smap V :=
  match snd e with
  | Some v => sm_put m (fst e) v
  | None => sm_del m (fst e)
  end.

Definition merge_overlay (o : smap (option V)) (m : smap V) : smap V := fold_left ov_apply o m.

Definition ov_lookup (o : smap (option V)) (m : smap V) (k : key) : option V :=
  match sm_get o k with
  | Some (Some v) => Some v
  | Some None => None
  | None => sm_get m k
  end.

Lemma ov_apply_sorted m e : sm_sorted m -> sm_sorted (ov_apply m e).
Proof. destruct e as [k [v|]]; cbn; auto using sm_put_sorted, sm_del_sorted. Qed.

Lemma merge_overlay_sorted o m : sm_sorted m -> sm_sorted (merge_overlay o m).
Proof.
  revert m. induction o as [|e o IH]; cbn; intros m S; auto.
  apply IH. now apply ov_apply_sorted.
Qed.

Lemma sm_get_ov_apply m e k : sm_sorted m ->
  sm_get (ov_apply m e) k = if bytes_eqb k (fst e) then snd e else sm_get m k.
Proof.
  intros S. destruct e as [k' [v|]]; cbn.
  - apply sm_get_put.
  - now apply sm_get_del.
Qed.

Lemma sm_get_merge_overlay o m k : sm_sorted o -> sm_sorted m ->
  sm_get (merge_overlay o m) k = ov_lookup o m k.
Proof.
  unfold ov_lookup. revert m. induction o as [|[ko ov] o IH]; intros m So Sm; cbn; auto.
  destruct So as [G So].
  rewrite IH; auto using ov_apply_sorted.
  rewrite sm_get_ov_apply; auto. cbn.
  destruct (lex_compare k ko) eqn:E.
  - apply lex_compare_eq in E. subst ko.
    rewrite (sm_get_none_le _ k o k); auto using lex_le_refl.
    rewrite (proj2 (bytes_eqb_eq k k) eq_refl). now destruct ov.
  - rewrite (sm_get_none_le _ ko o k); auto using lex_lt_le.
    destruct (bytes_eqb k ko) eqn:B; auto.
    apply bytes_eqb_eq in B. subst. rewrite lex_compare_refl in E. discriminate.
  - destruct (sm_get o k) as [[v|]|]; auto.
    destruct (bytes_eqb k ko) eqn:B; auto.
    apply bytes_eqb_eq in B. subst. rewrite lex_compare_refl in E. discriminate.
Qed.

(* filtering by key commutes with overlaying *)
Lemma sm_filter_merge_overlay f o m : sm_sorted o -> sm_sorted m ->
  sm_filter f (merge_overlay o m) = merge_overlay (sm_filter f o) (sm_filter f m).
Proof.
  intros So Sm. apply sm_ext.
  - apply sm_filter_sorted, merge_overlay_sorted, Sm.
  - apply merge_overlay_sorted, sm_filter_sorted, Sm.
  - intros k. rewrite sm_get_filter by (apply merge_overlay_sorted, Sm).
    rewrite !sm_get_merge_overlay; auto using sm_filter_sorted.
    unfold ov_lookup. rewrite !sm_get_filter; auto.
    destruct (f k); auto.
Qed.

End Overlay.

Arguments ov_apply {V}. Arguments merge_overlay {V}. Arguments ov_lookup {V}.
