(* Weighted sums over a fixed validator list.
   [wsum w l P] = total weight of the members of [l] satisfying the boolean predicate [P].
   Inclusion-exclusion, monotonicity, the BFT counting lemmas (two > 2/3 sets share > 1/3;
   a > 1/3 set is not contained in a < 1/3 set).  Element type and weight function are
   arguments, so the same lemmas serve validator ids (N), indexes (nat) and pairs. *)
From Coq Require Import NArith List Lia Bool.
From Coq Require Import ZifyBool ZifyNat ZifyN.
Import ListNotations.
Local Open Scope N_scope.

Section WSum.
Context {A : Type}.
Variable w : A -> N.

Fixpoint wsum (l : list A) (P : A -> bool) : N :=
  match l with
  | [] => 0
  | v :: l' => (if P v then w v else 0) + wsum l' P
  end.

Definition wtotal (l : list A) : N := wsum l (fun _ => true).

Lemma wsum_ext l P Q : (forall v, In v l -> P v = Q v) -> wsum l P = wsum l Q.
Proof.
  induction l as [|v l IH]; cbn [wsum]; intros H; [reflexivity|].
  rewrite (H v (or_introl eq_refl)), IH; [reflexivity|]. intros u Hu. apply H. right. exact Hu.
Qed.

Lemma wsum_app l1 l2 P : wsum (l1 ++ l2) P = wsum l1 P + wsum l2 P.
Proof. induction l1 as [|v l IH]; cbn [wsum app]; [reflexivity|]. rewrite IH. lia. Qed.

Lemma wsum_single_notin l (f : A -> bool) : (forall v, In v l -> f v = false) -> wsum l f = 0.
Proof.
  induction l as [|v l IH]; cbn [wsum]; intros H; [reflexivity|].
  rewrite (H v (or_introl eq_refl)), IH; [reflexivity|]. intros u Hu. apply H. right. exact Hu.
Qed.

Lemma wsum_false l : wsum l (fun _ => false) = 0.
Proof. induction l as [|v l IH]; cbn [wsum]; [reflexivity|]. rewrite IH. reflexivity. Qed.

Lemma wtotal_sum l : wtotal l = fold_right (fun v acc => w v + acc) 0 l.
Proof. unfold wtotal. induction l as [|v l IH]; cbn [wsum fold_right]; [reflexivity|]. rewrite IH. reflexivity. Qed.

(* inclusion-exclusion *)
Lemma wsum_incl_excl l P Q :
  wsum l P + wsum l Q = wsum l (fun v => P v && Q v) + wsum l (fun v => P v || Q v).
Proof.
  induction l as [|v l IH]; cbn [wsum]; [reflexivity|].
  destruct (P v), (Q v); cbn [andb orb]; lia.
Qed.

Lemma wsum_mono l P Q : (forall v, In v l -> P v = true -> Q v = true) -> wsum l P <= wsum l Q.
Proof.
  induction l as [|v l IH]; cbn [wsum]; intros H; [lia|].
  assert (Hl : wsum l P <= wsum l Q) by (apply IH; intros u Hu; apply H; right; exact Hu).
  destruct (P v) eqn:HP.
  - rewrite (H v (or_introl eq_refl) HP). lia.
  - destruct (Q v); lia.
Qed.

Lemma wsum_le_total l P : wsum l P <= wtotal l.
Proof. apply wsum_mono. reflexivity. Qed.

Lemma wsum_disjoint l P Q : (forall v, In v l -> P v && Q v = false) ->
  wsum l (fun v => P v || Q v) = wsum l P + wsum l Q.
Proof.
  intros H. pose proof (wsum_incl_excl l P Q) as E.
  rewrite (wsum_ext l (fun v => P v && Q v) (fun _ => false) H), wsum_false in E. lia.
Qed.

Lemma wsum_compl l P : wsum l P + wsum l (fun v => negb (P v)) = wtotal l.
Proof.
  unfold wtotal. induction l as [|v l IH]; cbn [wsum]; [reflexivity|].
  destruct (P v); cbn [negb]; lia.
Qed.

Lemma wsum_pos_ex l P : 0 < wsum l P -> exists v, In v l /\ P v = true /\ 0 < w v.
Proof.
  induction l as [|v l IH]; cbn [wsum]; [lia|]. destruct (P v) eqn:HP.
  - intros H. destruct (N.eq_dec (w v) 0) as [E|E].
    + destruct IH as [u [Hu Pu]]; [lia|]. exists u. split; [right; exact Hu|exact Pu].
    + exists v. split; [left; reflexivity|]. split; [exact HP|lia].
  - intros H. destruct IH as [u [Hu Pu]]; [lia|]. exists u. split; [right; exact Hu|exact Pu].
Qed.

(* two sets that each reach a quorum q > 2/3 W share more than 1/3 W *)
Lemma quorum_intersection l q P Q : 3 * q > 2 * wtotal l -> q <= wsum l P -> q <= wsum l Q ->
  3 * wsum l (fun v => P v && Q v) > wtotal l.
Proof.
  intros Hq HP HQ. pose proof (wsum_incl_excl l P Q) as H.
  pose proof (wsum_le_total l (fun v => P v || Q v)) as Hle. lia.
Qed.

(* a set above 1/3 is not inside a set below 1/3: some member lies outside *)
Lemma exists_outside l B P : 3 * wsum l B < wtotal l -> 3 * wsum l P > wtotal l ->
  exists v, In v l /\ P v = true /\ B v = false.
Proof.
  intros HB HP.
  assert (Hpos : 0 < wsum l (fun v => P v && negb (B v))).
  { pose proof (wsum_incl_excl l (fun v => P v && negb (B v)) B) as H.
    assert (H1 : wsum l P <= wsum l (fun v => P v && negb (B v) || B v)).
    { apply wsum_mono. intros v _ Hv. rewrite Hv. destruct (B v); reflexivity. }
    assert (H2 : wsum l (fun v => (P v && negb (B v)) && B v) = 0).
    { rewrite (wsum_ext l _ (fun _ => false)); [apply wsum_false|].
      intros v _. destruct (P v), (B v); reflexivity. }
    lia. }
  destruct (wsum_pos_ex l _ Hpos) as [v [Hv [Hp _]]]. exists v.
  apply andb_prop in Hp. destruct Hp as [Hp Hb]. rewrite negb_true_iff in Hb.
  split; [exact Hv|]. split; [exact Hp|exact Hb].
Qed.

(* two quorums intersect in a member outside any < 1/3 set (the honest witness of BFT proofs) *)
Lemma quorums_share_outside l q B P Q : 3 * q > 2 * wtotal l -> 3 * wsum l B < wtotal l ->
  q <= wsum l P -> q <= wsum l Q -> exists v, In v l /\ P v = true /\ Q v = true /\ B v = false.
Proof.
  intros Hq HB HP HQ.
  pose proof (quorum_intersection l q P Q Hq HP HQ) as HI.
  destruct (exists_outside l B _ HB HI) as [v [Hv [Hpq Hb]]].
  apply andb_prop in Hpq. destruct Hpq as [Hp Hq']. exists v. repeat split; assumption.
Qed.
End WSum.

Lemma wsum_map {A B} (w : B -> N) (g : A -> B) (l : list A) (P : B -> bool) :
  wsum w (map g l) P = wsum (fun a => w (g a)) l (fun a => P (g a)).
Proof. induction l as [|v l IH]; cbn [wsum map]; [reflexivity|]. rewrite IH. reflexivity. Qed.

Lemma wsum_ext_w {A} (w1 w2 : A -> N) (l : list A) (P : A -> bool) :
  (forall v, In v l -> w1 v = w2 v) -> wsum w1 l P = wsum w2 l P.
Proof.
  induction l as [|v l IH]; cbn [wsum]; intros H; [reflexivity|].
  rewrite (H v (or_introl eq_refl)), IH; [reflexivity|]. intros u Hu. apply H. right. exact Hu.
Qed.

(* weights carried in the list itself: members are (id, weight) pairs *)
Definition wsum_pairs {I : Type} (l : list (I * N)) (P : I -> bool) : N :=
  wsum (fun p => snd p) l (fun p => P (fst p)).
