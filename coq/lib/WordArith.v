(* Machine-word arithmetic written out explicitly.
   N versions (uint32 / uint64 without subtraction) and Z versions (uint64 with subtraction).
   A Go expression  a*b/c + d  on uintK is modelled as  addK (mulK a b / c) d : every
   operation that can wrap is wrapped, division cannot wrap. *)
From Coq Require Import NArith ZArith Lia.
From Coq Require Import ZifyBool ZifyNat ZifyN.
Ltac Zify.zify_post_hook ::= Z.div_mod_to_equations.

(* ---------- N ---------- *)
Definition two32 : N := 4294967296.
Definition two64 : N := 18446744073709551616.
Definition max_u32 : N := 4294967295.
Definition max_u64 : N := 18446744073709551615.

Definition wrap32 (n : N) : N := N.modulo n two32.
Definition wrap64 (n : N) : N := N.modulo n two64.
Definition add32 (a b : N) : N := wrap32 (a + b).
Definition mul32 (a b : N) : N := wrap32 (a * b).
Definition add64 (a b : N) : N := wrap64 (a + b).
Definition mul64 (a b : N) : N := wrap64 (a * b).

Definition fits32 (n : N) : Prop := (n < two32)%N.
Definition fits64 (n : N) : Prop := (n < two64)%N.

Lemma two32_pow : two32 = (2 ^ 32)%N. Proof. reflexivity. Qed.
Lemma two64_pow : two64 = (2 ^ 64)%N. Proof. reflexivity. Qed.

Lemma wrap32_small n : (n < two32)%N -> wrap32 n = n.
Proof. intros H. unfold wrap32. apply N.mod_small. exact H. Qed.
Lemma wrap64_small n : (n < two64)%N -> wrap64 n = n.
Proof. intros H. unfold wrap64. apply N.mod_small. exact H. Qed.
Lemma wrap32_lt n : (wrap32 n < two32)%N.
Proof. unfold wrap32. apply N.mod_lt. discriminate. Qed.
Lemma wrap64_lt n : (wrap64 n < two64)%N.
Proof. unfold wrap64. apply N.mod_lt. discriminate. Qed.
Lemma wrap32_le n : (wrap32 n <= n)%N.
Proof. unfold wrap32. apply N.mod_le. discriminate. Qed.

(* uint32 addition of two in-range values wraps iff the result is below the first operand:
   this is the overflow test `new < before` used by calcCaches *)
Lemma add32_overflow_iff a b : (a < two32)%N -> (b < two32)%N ->
  ((add32 a b <? a)%N = true <-> (two32 <= a + b)%N).
Proof.
  intros Ha Hb. unfold add32, wrap32, two32 in *. rewrite N.ltb_lt.
  split; intros H.
  - destruct (N.lt_ge_cases (a + b) 4294967296) as [Hlt|Hge]; [|exact Hge].
    rewrite N.mod_small in H by exact Hlt. lia.
  - assert (E : ((a + b) mod 4294967296 = a + b - 4294967296)%N).
    { symmetry. apply (N.mod_unique _ _ 1%N); lia. }
    rewrite E. lia.
Qed.

(* ---------- Z (uint64 with subtraction) ---------- *)
Definition ztwo64 : Z := 18446744073709551616.
Definition zwrap64 (z : Z) : Z := Z.modulo z ztwo64.
Definition zadd64 (a b : Z) : Z := zwrap64 (a + b).
Definition zsub64 (a b : Z) : Z := zwrap64 (a - b).
Definition zmul64 (a b : Z) : Z := zwrap64 (a * b).

Lemma zwrap64_small z : (0 <= z < ztwo64)%Z -> zwrap64 z = z.
Proof. intros H. unfold zwrap64. apply Z.mod_small. exact H. Qed.
Lemma zwrap64_range z : (0 <= zwrap64 z < ztwo64)%Z.
Proof. unfold zwrap64. apply Z.mod_pos_bound. reflexivity. Qed.
