(* Roots that force nat / positive / N / Z into every extracted model, so that the
   hand-written OCaml conversion layer (extract/common/conv.ml) always finds them. *)
From Coq Require Import NArith ZArith List.
Definition conv_roots : nat * positive * N * Z * list N :=
  (S O, xI (xO xH), Npos xH, Zneg xH, nil).
