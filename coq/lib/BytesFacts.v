From Coq Require Import NArith List Lia Bool.
From LV Require Import lib.Bytes.
Import ListNotations.
Local Open Scope N_scope.

Lemma lex_compare_refl a : lex_compare a a = Eq.
Proof. induction a as [|x a IH]; cbn; [reflexivity|]. rewrite N.compare_refl. exact IH. Qed.

Lemma lex_compare_eq a b : lex_compare a b = Eq -> a = b.
Proof.
  revert b; induction a as [|x a IH]; intros [|y b]; cbn; try discriminate; auto.
  destruct (N.compare_spec x y) as [->|H|H]; try discriminate.
  intros E; f_equal; auto.
Qed.

Lemma lex_compare_eq_iff a b : lex_compare a b = Eq <-> a = b.
Proof. split; [apply lex_compare_eq | intros ->; apply lex_compare_refl]. Qed.

Lemma lex_compare_antisym a b : lex_compare b a = CompOpp (lex_compare a b).
Proof.
  revert b; induction a as [|x a IH]; intros [|y b]; cbn; auto.
  rewrite (N.compare_antisym x y).
  destruct (N.compare x y); cbn; auto.
Qed.

Lemma lex_compare_app_same p a b :
  lex_compare (p ++ a) (p ++ b) = lex_compare a b.
Proof. induction p as [|x p IH]; cbn; auto. rewrite N.compare_refl; auto. Qed.

Lemma lex_lt_trans a b c : lex_lt a b -> lex_lt b c -> lex_lt a c.
Proof.
  unfold lex_lt. revert b c; induction a as [|x a IH]; intros [|y b] [|z c]; cbn; try discriminate; auto.
  intros H1 H2.
  destruct (N.compare_spec x y) as [Exy|Hxy|Hxy]; try discriminate;
  destruct (N.compare_spec y z) as [Eyz|Hyz|Hyz]; try discriminate;
  destruct (N.compare_spec x z) as [Exz|Hxz|Hxz]; try lia; auto.
  eapply IH; eauto.
Qed.

Lemma bytes_eqb_eq a b : bytes_eqb a b = true <-> a = b.
Proof.
  revert b; induction a as [|x a IH]; intros [|y b]; cbn; split; try discriminate; auto.
  - rewrite andb_true_iff, N.eqb_eq, IH. intros [-> ->]; auto.
  - intros E; inversion E; subst. rewrite N.eqb_refl, (proj2 (IH b)); auto.
Qed.

Lemma has_prefix_app p k : has_prefix p (p ++ k) = true.
Proof. induction p as [|x p IH]; cbn; auto. rewrite N.eqb_refl; auto. Qed.

Lemma has_prefix_spec p k : has_prefix p k = true <-> exists s, k = p ++ s.
Proof.
  revert k; induction p as [|x p IH]; intros k; cbn.
  - split; eauto.
  - destruct k as [|y k]; [split; [discriminate|intros [s E]; discriminate]|].
    rewrite andb_true_iff, N.eqb_eq, IH. split.
    + intros [-> [s ->]]; eauto.
    + intros [s E]; inversion E; subst; eauto.
Qed.

Lemma strip_app p k : strip p (p ++ k) = k.
Proof. induction p; cbn; auto. Qed.
