(* Weighted sums over validator indices, for the BFT core (own copy; lib/WSum.v belongs to the
   arithmetic worker).  The sums are the ones the specifications compute:
     VecIndex.wsum ws (map P (seq 0 (length ws)))
   i.e. the total weight of the validator indices satisfying P. *)
From Coq Require Import List Arith NArith Bool Lia ZArith.
From Coq Require Import ZifyBool ZifyNat ZifyN.
From LV Require Import model.VecIndex.
Import ListNotations.
Open Scope N_scope.
Ltac Zify.zify_post_hook ::= Z.div_mod_to_equations.

(* recursive form: weights ws belong to the indices i, i+1, ... *)
Fixpoint wsl (i : nat) (ws : list N) (P : nat -> bool) : N :=
  match ws with
  | [] => 0
  | w :: t => (if P i then w else 0) + wsl (S i) t P
  end.

Lemma fold_add_acc (l : list N) (a : N) : fold_left N.add l a = a + fold_left N.add l 0.
Proof.
  revert a. induction l as [|x l IH]; intros a; cbn [fold_left].
  - lia.
  - rewrite (IH (a + x)), (IH (0 + x)). lia.
Qed.

Lemma wsum_wsl_gen (ws : list N) (P : nat -> bool) (i : nat) :
  wsum ws (map P (seq i (length ws))) = wsl i ws P.
Proof.
  unfold wsum. revert i. induction ws as [|w t IH]; intros i.
  - reflexivity.
  - cbn [length seq map combine fold_left wsl snd fst].
    rewrite fold_add_acc. rewrite IH. destruct (P i); lia.
Qed.

Definition wsP (ws : list N) (P : nat -> bool) : N := wsum ws (map P (seq 0 (length ws))).
Lemma wsP_wsl ws P : wsP ws P = wsl 0 ws P.
Proof. apply wsum_wsl_gen. Qed.

Lemma wsl_incl_excl ws : forall i P Q,
  wsl i ws P + wsl i ws Q = wsl i ws (fun v => P v && Q v) + wsl i ws (fun v => P v || Q v).
Proof.
  induction ws as [|w t IH]; intros i P Q; cbn [wsl]; [reflexivity|].
  specialize (IH (S i) P Q). destruct (P i), (Q i); cbn [andb orb]; lia.
Qed.

Lemma wsl_mono ws : forall i P Q,
  (forall v, (i <= v < i + length ws)%nat -> P v = true -> Q v = true) -> wsl i ws P <= wsl i ws Q.
Proof.
  induction ws as [|w t IH]; intros i P Q H; cbn [wsl]; [lia|].
  assert (H1 : wsl (S i) t P <= wsl (S i) t Q).
  { apply IH. intros v Hv. apply H. cbn [length]. lia. }
  destruct (P i) eqn:HP.
  - rewrite (H i); [lia| cbn [length]; lia | exact HP].
  - destruct (Q i); lia.
Qed.

Lemma wsl_ext ws : forall i P Q,
  (forall v, (i <= v < i + length ws)%nat -> P v = Q v) -> wsl i ws P = wsl i ws Q.
Proof.
  induction ws as [|w t IH]; intros i P Q H; cbn [wsl]; [reflexivity|].
  rewrite (H i) by (cbn [length]; lia). f_equal. apply IH. intros v Hv. apply H. cbn [length]. lia.
Qed.

Lemma wsl_zero ws : forall i P,
  (forall v, (i <= v < i + length ws)%nat -> P v = false) -> wsl i ws P = 0.
Proof.
  induction ws as [|w t IH]; intros i P H; cbn [wsl]; [reflexivity|].
  rewrite (H i) by (cbn [length]; lia). rewrite IH; [reflexivity|]. intros v Hv. apply H. cbn [length]. lia.
Qed.

Lemma wsl_pos_ex ws : forall i P, 0 < wsl i ws P -> exists v, (i <= v < i + length ws)%nat /\ P v = true.
Proof.
  induction ws as [|w t IH]; intros i P H; cbn [wsl] in H; [lia|].
  destruct (P i) eqn:HP.
  - exists i. cbn [length]. split; [lia|exact HP].
  - destruct (IH (S i) P) as [v [Hv Pv]]; [lia|]. exists v. cbn [length]. split; [lia|exact Pv].
Qed.

Lemma wsl_total ws : forall i, wsl i ws (fun _ => true) = fold_left N.add ws 0.
Proof.
  induction ws as [|w t IH]; intros i; cbn [wsl fold_left]; [reflexivity|].
  rewrite IH. rewrite (fold_add_acc t (0 + w)). lia.
Qed.

(* ---- the same for wsP ---- *)
Section WSP.
Variable ws : list N.
Notation nv := (length ws).
Definition totalW : N := wsP ws (fun _ => true).

Lemma totalW_fold : totalW = fold_left N.add ws 0.
Proof. unfold totalW. rewrite wsP_wsl. apply wsl_total. Qed.

Lemma wsP_incl_excl P Q :
  wsP ws P + wsP ws Q = wsP ws (fun v => P v && Q v) + wsP ws (fun v => P v || Q v).
Proof. rewrite !wsP_wsl. apply wsl_incl_excl. Qed.

Lemma wsP_mono P Q : (forall v, (v < nv)%nat -> P v = true -> Q v = true) -> wsP ws P <= wsP ws Q.
Proof. intros H. rewrite !wsP_wsl. apply wsl_mono. intros v Hv. apply H. lia. Qed.

Lemma wsP_ext P Q : (forall v, (v < nv)%nat -> P v = Q v) -> wsP ws P = wsP ws Q.
Proof. intros H. rewrite !wsP_wsl. apply wsl_ext. intros v Hv. apply H. lia. Qed.

Lemma wsP_zero P : (forall v, (v < nv)%nat -> P v = false) -> wsP ws P = 0.
Proof. intros H. rewrite wsP_wsl. apply wsl_zero. intros v Hv. apply H. lia. Qed.

Lemma wsP_pos_ex P : 0 < wsP ws P -> exists v, (v < nv)%nat /\ P v = true.
Proof. rewrite wsP_wsl. intros H. destruct (wsl_pos_ex _ _ _ H) as [v [Hv Pv]]. exists v. split; [lia|exact Pv]. Qed.

Lemma wsP_le_total P : wsP ws P <= totalW.
Proof. apply wsP_mono. reflexivity. Qed.

(* two sets each holding a quorum intersect in more than a third *)
Lemma quorum_intersection q P Q : 3 * q > 2 * totalW -> q <= wsP ws P -> q <= wsP ws Q ->
  3 * wsP ws (fun v => P v && Q v) > totalW.
Proof.
  intros Hq HP HQ. pose proof (wsP_incl_excl P Q) as H.
  pose proof (wsP_le_total (fun v => P v || Q v)). lia.
Qed.

(* a set heavier than a third is not contained in a set lighter than a third *)
Lemma exists_outside B P : 3 * wsP ws B < totalW -> 3 * wsP ws P > totalW ->
  exists v, (v < nv)%nat /\ P v = true /\ B v = false.
Proof.
  intros HB HP.
  assert (Hpos : 0 < wsP ws (fun v => P v && negb (B v))).
  { pose proof (wsP_incl_excl (fun v => P v && negb (B v)) B) as H.
    assert (H1 : wsP ws P <= wsP ws (fun v => P v && negb (B v) || B v)).
    { apply wsP_mono. intros v _ Hv. rewrite Hv. destruct (B v); reflexivity. }
    assert (H2 : wsP ws (fun v => (P v && negb (B v)) && B v) = 0).
    { apply wsP_zero. intros v _. destruct (P v), (B v); reflexivity. }
    lia. }
  destruct (wsP_pos_ex _ Hpos) as [v [Hv Hp]]. exists v.
  apply andb_prop in Hp. destruct Hp as [Hp Hb]. apply negb_true_iff in Hb. auto.
Qed.
End WSP.

(* the quorum used by the code: total*2/3 + 1 is strictly more than two thirds *)
Lemma quorum_gt_two_thirds (t : N) : 3 * (t * 2 / 3 + 1) > 2 * t.
Proof. lia. Qed.

(* ---------- double sums (for the pigeonhole of "some subject is never decided no") ---------- *)
Fixpoint wsf (i : nat) (ws : list N) (g : nat -> N) : N :=
  match ws with
  | [] => 0
  | w :: t => w * g i + wsf (S i) t g
  end.

Lemma wsl_wsf ws : forall i P, wsl i ws P = wsf i ws (fun v => if P v then 1 else 0).
Proof. induction ws as [|w t IH]; intros i P; cbn [wsl wsf]; [reflexivity|]. rewrite IH. destruct (P i); lia. Qed.

Lemma wsf_add ws : forall i g h, wsf i ws (fun v => g v + h v) = wsf i ws g + wsf i ws h.
Proof. induction ws as [|w t IH]; intros i g h; cbn [wsf]; [reflexivity|]. rewrite IH. lia. Qed.

Lemma wsf_scale ws c : forall i g, wsf i ws (fun v => c * g v) = c * wsf i ws g.
Proof. induction ws as [|w t IH]; intros i g; cbn [wsf]; [lia|]. rewrite IH. lia. Qed.

Lemma wsf_zero ws : forall i, wsf i ws (fun _ => 0) = 0.
Proof. induction ws as [|w t IH]; intros i; cbn [wsf]; [reflexivity|]. rewrite IH. lia. Qed.

Lemma wsf_ext ws : forall i g h, (forall v, (i <= v < i + length ws)%nat -> g v = h v) -> wsf i ws g = wsf i ws h.
Proof.
  induction ws as [|w t IH]; intros i g h H; cbn [wsf]; [reflexivity|].
  rewrite (H i) by (cbn [length]; lia). f_equal. apply IH. intros v Hv. apply H. cbn [length]. lia.
Qed.

Lemma wsf_le ws : forall i g h, (forall v, (i <= v < i + length ws)%nat -> g v <= h v) -> wsf i ws g <= wsf i ws h.
Proof.
  induction ws as [|w t IH]; intros i g h H; cbn [wsf]; [lia|].
  assert (g i <= h i) by (apply H; cbn [length]; lia).
  assert (wsf (S i) t g <= wsf (S i) t h) by (apply IH; intros v Hv; apply H; cbn [length]; lia). nia.
Qed.

Lemma wsf_fubini ws1 : forall ws2 i j (m : nat -> nat -> N),
  wsf i ws1 (fun u => wsf j ws2 (fun v => m u v)) = wsf j ws2 (fun v => wsf i ws1 (fun u => m u v)).
Proof.
  induction ws1 as [|w t IH]; intros ws2 i j m; cbn [wsf].
  - rewrite wsf_zero. reflexivity.
  - rewrite IH. rewrite <- wsf_scale. rewrite <- wsf_add. reflexivity.
Qed.

(* weighted pigeonhole: if the weighted sum of g is at least c * total, some index reaches c (scaled) *)
Lemma wsf_pigeon ws g (c : N) : 0 < wsf 0 ws (fun _ => 1) -> c * wsf 0 ws (fun _ => 1) <= wsf 0 ws g ->
  exists v, (v < length ws)%nat /\ c <= g v.
Proof.
  intros Hn H.
  destruct (existsb (fun v => c <=? g v) (seq 0 (length ws))) eqn:E.
  - apply existsb_exists in E as [v [Hv Hc]]. apply in_seq in Hv. exists v. split; [lia|apply N.leb_le; exact Hc].
  - exfalso.
    assert (Hall : forall v, (v < length ws)%nat -> g v + 1 <= c).
    { intros v Hv. destruct (c <=? g v) eqn:Ec; [|apply N.leb_gt in Ec; lia].
      assert (existsb (fun v => c <=? g v) (seq 0 (length ws)) = true); [|congruence].
      apply existsb_exists. exists v. split; [apply in_seq; lia|exact Ec]. }
    assert (H1 : wsf 0 ws (fun v => g v + 1) <= wsf 0 ws (fun _ => c)).
    { apply wsf_le. intros v Hv. apply Hall. lia. }
    rewrite wsf_add in H1.
    assert (H2 : wsf 0 ws (fun _ => c) = c * wsf 0 ws (fun _ => 1)).
    { rewrite <- wsf_scale. apply wsf_ext. intros; lia. }
    lia.
Qed.
