(* Facts about the lexicographic order on byte strings (Go's bytes.Compare) beyond
   lib/BytesFacts.v: total order, boolean reflection, prefixes, and [prefix_succ] =
   the upper limit computed by goleveldb's util.BytesPrefix / pebble.go's bytesPrefix
   (scan from the end for a byte < 0xff, cut after it, increment it).
     prefix_succ p = Some u -> (has_prefix p k <-> p <=lex k <lex u)
     prefix_succ p = None   -> (has_prefix p k <-> p <=lex k)         (p is all-0xff or empty)
   for well-formed byte strings.  Shared by C22-C25. *)
From Coq Require Import NArith List Lia Bool.
From LV Require Import lib.Bytes lib.BytesFacts.
Import ListNotations.
Local Open Scope N_scope.

(* ---------- order ---------- *)

Lemma lex_compare_gt_lt a b : lex_compare a b = Gt <-> lex_compare b a = Lt.
Proof.
  rewrite (lex_compare_antisym a b). destruct (lex_compare a b); cbn; split; congruence.
Qed.

Lemma lex_compare_lt_gt a b : lex_compare a b = Lt <-> lex_compare b a = Gt.
Proof.
  rewrite (lex_compare_antisym a b). destruct (lex_compare a b); cbn; split; congruence.
Qed.

Lemma lex_lt_irrefl a : ~ lex_lt a a.
Proof. unfold lex_lt. rewrite lex_compare_refl. discriminate. Qed.

Lemma lex_lt_asym a b : lex_lt a b -> ~ lex_lt b a.
Proof.
  unfold lex_lt. intros H1 H2. apply lex_compare_lt_gt in H1. congruence.
Qed.

Lemma lex_total a b : lex_lt a b \/ a = b \/ lex_lt b a.
Proof.
  unfold lex_lt. destruct (lex_compare a b) eqn:E.
  - right; left. now apply lex_compare_eq.
  - now left.
  - right; right. now apply lex_compare_gt_lt.
Qed.

Lemma lex_le_iff a b : lex_le a b <-> lex_lt a b \/ a = b.
Proof.
  unfold lex_le, lex_lt. split.
  - destruct (lex_compare a b) eqn:E; intros H.
    + right. now apply lex_compare_eq.
    + now left.
    + congruence.
  - intros [H| ->]; [rewrite H | rewrite lex_compare_refl]; discriminate.
Qed.

Lemma lex_le_refl a : lex_le a a.
Proof. apply lex_le_iff. now right. Qed.

Lemma lex_lt_le a b : lex_lt a b -> lex_le a b.
Proof. intros H. apply lex_le_iff. now left. Qed.

Lemma lex_le_lt_trans a b c : lex_le a b -> lex_lt b c -> lex_lt a c.
Proof. intros H1 H2. apply lex_le_iff in H1 as [H1| ->]; eauto using lex_lt_trans. Qed.

Lemma lex_lt_le_trans a b c : lex_lt a b -> lex_le b c -> lex_lt a c.
Proof. intros H1 H2. apply lex_le_iff in H2 as [H2| <-]; eauto using lex_lt_trans. Qed.

Lemma lex_le_trans a b c : lex_le a b -> lex_le b c -> lex_le a c.
Proof.
  intros H1 H2. apply lex_le_iff in H1 as [H1| ->]; auto.
  apply lex_lt_le. eapply lex_lt_le_trans; eauto.
Qed.

Lemma lex_le_antisym a b : lex_le a b -> lex_le b a -> a = b.
Proof.
  intros H1 H2. apply lex_le_iff in H1 as [H1| ->]; auto.
  apply lex_le_iff in H2 as [H2| ->]; auto.
  exfalso. eapply lex_lt_asym; eauto.
Qed.

Lemma lex_not_lt_le a b : ~ lex_lt a b <-> lex_le b a.
Proof.
  unfold lex_lt, lex_le. rewrite (lex_compare_antisym a b).
  destruct (lex_compare a b); cbn; split; intros; congruence.
Qed.

Lemma lex_not_le_lt a b : ~ lex_le a b <-> lex_lt b a.
Proof.
  unfold lex_lt, lex_le. rewrite (lex_compare_antisym a b).
  destruct (lex_compare a b); cbn; split; intros H; try congruence.
  - exfalso. apply H. discriminate.
  - exfalso. apply H. discriminate.
Qed.

Lemma lex_le_or_lt a b : lex_le a b \/ lex_lt b a.
Proof.
  destruct (lex_total a b) as [H|[H|H]]; auto using lex_lt_le.
  subst. left. apply lex_le_refl.
Qed.

(* boolean reflection *)
Lemma lex_ltb_lt a b : lex_ltb a b = true <-> lex_lt a b.
Proof. unfold lex_ltb, lex_lt. destruct (lex_compare a b); split; congruence. Qed.

Lemma lex_leb_le a b : lex_leb a b = true <-> lex_le a b.
Proof. unfold lex_leb, lex_le. destruct (lex_compare a b); split; congruence. Qed.

Lemma lex_ltb_false a b : lex_ltb a b = false <-> lex_le b a.
Proof.
  rewrite <- lex_not_lt_le, <- lex_ltb_lt. destruct (lex_ltb a b); split; congruence.
Qed.

Lemma lex_leb_false a b : lex_leb a b = false <-> lex_lt b a.
Proof.
  rewrite <- lex_not_le_lt, <- lex_leb_le. destruct (lex_leb a b); split; congruence.
Qed.

Lemma lex_nil_le k : lex_le [] k.
Proof. unfold lex_le. destruct k; cbn; discriminate. Qed.

Lemma lex_leb_nil k : lex_leb [] k = true.
Proof. apply lex_leb_le, lex_nil_le. Qed.

(* ---------- prefixes ---------- *)

Lemma lex_le_app p s : lex_le p (p ++ s).
Proof.
  unfold lex_le. induction p as [|x p IH]; cbn.
  - destruct s; discriminate.
  - rewrite N.compare_refl. exact IH.
Qed.

Lemma has_prefix_le p k : has_prefix p k = true -> lex_le p k.
Proof. intros H. apply has_prefix_spec in H as [s ->]. apply lex_le_app. Qed.

Lemma has_prefix_nil k : has_prefix [] k = true.
Proof. reflexivity. Qed.

Lemma has_prefix_refl p : has_prefix p p = true.
Proof. rewrite <- (app_nil_r p) at 2. apply has_prefix_app. Qed.

Lemma has_prefix_app_iff p q k : has_prefix (p ++ q) k = true <-> has_prefix p k = true /\ has_prefix q (strip p k) = true.
Proof.
  revert k. induction p as [|x p IH]; intros k; cbn.
  - tauto.
  - destruct k as [|y k]; cbn.
    + split; [discriminate | intros [H _]; discriminate].
    + rewrite !andb_true_iff, IH. tauto.
Qed.

Lemma has_prefix_app_l p q k : has_prefix (p ++ q) (p ++ k) = has_prefix q k.
Proof. induction p as [|x p IH]; cbn; auto. rewrite N.eqb_refl. exact IH. Qed.

Lemma has_prefix_strip p k : has_prefix p k = true -> p ++ strip p k = k.
Proof. intros H. apply has_prefix_spec in H as [s ->]. now rewrite strip_app. Qed.

Lemma has_prefix_trans p q k : has_prefix p q = true -> has_prefix q k = true -> has_prefix p k = true.
Proof.
  intros H1 H2. apply has_prefix_spec in H1 as [s1 ->]. apply has_prefix_spec in H2 as [s2 ->].
  rewrite <- app_assoc. apply has_prefix_app.
Qed.

Lemma has_prefix_length p k : has_prefix p k = true -> (length p <= length k)%nat.
Proof. intros H. apply has_prefix_spec in H as [s ->]. rewrite app_length. lia. Qed.

(* two prefixes of one key are comparable *)
Lemma has_prefix_comparable p q k :
  has_prefix p k = true -> has_prefix q k = true -> has_prefix p q = true \/ has_prefix q p = true.
Proof.
  revert q k. induction p as [|x p IH]; intros q k Hp Hq; cbn; auto.
  destruct q as [|y q]; cbn; auto.
  destruct k as [|z k]; cbn in *; try discriminate.
  apply andb_true_iff in Hp as [E1 Hp]. apply andb_true_iff in Hq as [E2 Hq].
  apply N.eqb_eq in E1, E2. subst. rewrite N.eqb_refl. cbn. eauto.
Qed.

Lemma lex_compare_app_l p a b : lex_compare (p ++ a) (p ++ b) = lex_compare a b.
Proof. apply lex_compare_app_same. Qed.

Lemma lex_le_app_l p a b : lex_le (p ++ a) (p ++ b) <-> lex_le a b.
Proof. unfold lex_le. now rewrite lex_compare_app_same. Qed.

Lemma lex_lt_app_l p a b : lex_lt (p ++ a) (p ++ b) <-> lex_lt a b.
Proof. unfold lex_lt. now rewrite lex_compare_app_same. Qed.

Lemma lex_leb_app_l p a b : lex_leb (p ++ a) (p ++ b) = lex_leb a b.
Proof. unfold lex_leb. now rewrite lex_compare_app_same. Qed.

Lemma wf_bytes_app a b : wf_bytes (a ++ b) = wf_bytes a && wf_bytes b.
Proof. unfold wf_bytes. apply forallb_app. Qed.

Lemma wf_bytes_cons x a : wf_bytes (x :: a) = true <-> x < 256 /\ wf_bytes a = true.
Proof. cbn. unfold byte_ok. rewrite andb_true_iff, N.ltb_lt. tauto. Qed.

(* ---------- prefix_succ ---------- *)

(* the least byte string greater than every string with prefix p (None: there is none) *)
Fixpoint prefix_succ (p : list N) : option (list N) :=
  match p with
  | [] => None
  | c :: p' =>
      match prefix_succ p' with
      | Some u => Some (c :: u)
      | None => if c <? 255 then Some [c + 1] else None
      end
  end.

Lemma prefix_succ_None p : wf_bytes p = true ->
  (prefix_succ p = None <-> Forall (fun b => b = 255) p).
Proof.
  induction p as [|c p IH]; intros W.
  - cbn. split; auto.
  - apply wf_bytes_cons in W as [Wc W]. specialize (IH W). cbn.
    destruct (prefix_succ p) as [u|].
    + split; [discriminate|]. intros F. inversion F; subst.
      assert (@None (list N) = None) by reflexivity.
      destruct IH as [_ IH]. specialize (IH H2). discriminate.
    + destruct (N.ltb_spec c 255) as [L|L].
      * split; [discriminate|]. intros F. inversion F; subst. lia.
      * split; auto. intros _. constructor; [lia|]. now apply IH.
Qed.

Lemma prefix_succ_wf p u : wf_bytes p = true -> prefix_succ p = Some u -> wf_bytes u = true.
Proof.
  revert u. induction p as [|c p IH]; intros u W; [discriminate|].
  apply wf_bytes_cons in W as [Wc W]. cbn.
  destruct (prefix_succ p) as [u'|].
  - intros E; inversion E; subst. apply wf_bytes_cons. split; auto.
  - destruct (N.ltb_spec c 255) as [L|L]; [|discriminate].
    intros E; inversion E; subst. apply wf_bytes_cons. split; [lia|reflexivity].
Qed.

Lemma prefix_succ_spec p k : wf_bytes p = true -> wf_bytes k = true ->
  match prefix_succ p with
  | Some u => has_prefix p k = true <-> (lex_le p k /\ lex_lt k u)
  | None => has_prefix p k = true <-> lex_le p k
  end.
Proof.
  revert k. induction p as [|c p IH]; intros k Wp Wk.
  - cbn. split; auto using lex_nil_le.
  - apply wf_bytes_cons in Wp as [Wc Wp].
    destruct k as [|y k].
    + cbn [prefix_succ has_prefix].
      assert (NL : ~ lex_le (c :: p) []) by (unfold lex_le; cbn; congruence).
      destruct (prefix_succ p); [|destruct (c <? 255)]; split; try discriminate; tauto.
    + apply wf_bytes_cons in Wk as [Wy Wk]. specialize (IH k Wp Wk).
      cbn [prefix_succ has_prefix]. unfold lex_le, lex_lt in *. cbn [lex_compare].
      destruct (N.compare_spec c y) as [E|L|G].
      * subst y. rewrite N.eqb_refl. cbn [andb].
        destruct (prefix_succ p) as [u|].
        -- cbn [lex_compare]. rewrite N.compare_refl. exact IH.
        -- destruct (N.ltb_spec c 255) as [L|L].
           ++ cbn [lex_compare].
              assert (Hc : (c ?= c + 1) = Lt) by (apply N.compare_lt_iff; lia).
              rewrite Hc. rewrite IH. tauto.
           ++ exact IH.
      * assert (Ey : (c =? y) = false) by (apply N.eqb_neq; lia).
        rewrite Ey. cbn [andb].
        assert (Hyc : (y ?= c) = Gt) by (apply N.compare_gt_iff; lia).
        destruct (prefix_succ p) as [u|].
        -- cbn [lex_compare]. rewrite Hyc. split; [discriminate|]. intros [_ H]; discriminate.
        -- destruct (N.ltb_spec c 255) as [L'|L'].
           ++ cbn [lex_compare]. split; [discriminate|]. intros [_ H].
              destruct (N.compare_spec y (c + 1)) as [E'|L2|G2]; try discriminate; try lia.
              destruct k; discriminate.
           ++ lia.
      * assert (Ey : (c =? y) = false) by (apply N.eqb_neq; lia).
        rewrite Ey. cbn [andb].
        destruct (prefix_succ p) as [u|]; [|destruct (c <? 255)];
          (split; [discriminate|]); intros H; exfalso; try (destruct H as [H _]); now apply H.
Qed.

Lemma prefix_succ_Some_iff p u k : wf_bytes p = true -> wf_bytes k = true ->
  prefix_succ p = Some u -> (has_prefix p k = true <-> (lex_le p k /\ lex_lt k u)).
Proof. intros Wp Wk E. pose proof (prefix_succ_spec p k Wp Wk) as H. now rewrite E in H. Qed.

Lemma prefix_succ_None_iff p k : wf_bytes p = true -> wf_bytes k = true ->
  prefix_succ p = None -> (has_prefix p k = true <-> lex_le p k).
Proof. intros Wp Wk E. pose proof (prefix_succ_spec p k Wp Wk) as H. now rewrite E in H. Qed.

(* p < succ p, so the range [p, succ p) is never empty *)
Lemma prefix_succ_gt p u : wf_bytes p = true -> prefix_succ p = Some u -> lex_lt p u.
Proof.
  intros W E. apply (prefix_succ_Some_iff p u p W W E). apply has_prefix_refl.
Qed.
