(* Byte strings as lists of N (each element < 256) and their lexicographic order.
   This is the order of Go's bytes.Compare. *)
From Coq Require Import NArith List Lia Bool.
Import ListNotations.
Local Open Scope N_scope.

Definition byte_ok (b : N) : bool := b <? 256.
Definition wf_bytes (l : list N) : bool := forallb byte_ok l.

Fixpoint lex_compare (a b : list N) : comparison :=
  match a, b with
  | [], [] => Eq
  | [], _ :: _ => Lt
  | _ :: _, [] => Gt
  | x :: a', y :: b' =>
      match N.compare x y with
      | Eq => lex_compare a' b'
      | c => c
      end
  end.

Definition lex_lt a b := lex_compare a b = Lt.
Definition lex_le a b := lex_compare a b <> Gt.
Definition lex_leb a b := match lex_compare a b with Gt => false | _ => true end.
Definition lex_ltb a b := match lex_compare a b with Lt => true | _ => false end.

Fixpoint has_prefix (p k : list N) : bool :=
  match p, k with
  | [], _ => true
  | _ :: _, [] => false
  | x :: p', y :: k' => (x =? y) && has_prefix p' k'
  end.

Fixpoint strip (p k : list N) : list N :=
  match p, k with
  | [], _ => k
  | _ :: p', _ :: k' => strip p' k'
  | _ :: _, [] => []
  end.

Fixpoint bytes_eqb (a b : list N) : bool :=
  match a, b with
  | [], [] => true
  | x :: a', y :: b' => (x =? y) && bytes_eqb a' b'
  | _, _ => false
  end.
