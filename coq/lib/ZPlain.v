(* Z operations defined OUTSIDE Coq's module [Z], for executable models that are extracted.

   The shared OCaml layer (extract/common/conv.ml) does [open Model] and then uses Zarith's
   module [Z]; a model that calls [Z.add]/[Z.leb]/... makes the extraction emit a module [Z]
   inside model.ml which shadows Zarith's.  Models therefore use the functions below (the
   same definitions, built on [Pos.*] only), and proofs rewrite them back with the
   [zplain] hint database. *)
From Coq Require Import ZArith Lia.

Definition zcompare (x y : Z) : comparison :=
  match x, y with
  | Z0, Z0 => Eq
  | Z0, Zpos _ => Lt
  | Z0, Zneg _ => Gt
  | Zpos _, Z0 => Gt
  | Zpos a, Zpos b => Pos.compare a b
  | Zpos _, Zneg _ => Gt
  | Zneg _, Z0 => Lt
  | Zneg _, Zpos _ => Lt
  | Zneg a, Zneg b => CompOpp (Pos.compare a b)
  end.

Definition zleb (x y : Z) : bool := match zcompare x y with Gt => false | _ => true end.
Definition zltb (x y : Z) : bool := match zcompare x y with Lt => true | _ => false end.
Definition zeqb (x y : Z) : bool := match zcompare x y with Eq => true | _ => false end.

Definition zpos_sub (x y : positive) : Z :=
  match Pos.compare x y with
  | Eq => Z0
  | Lt => Zneg (Pos.sub y x)
  | Gt => Zpos (Pos.sub x y)
  end.

Definition zadd (x y : Z) : Z :=
  match x, y with
  | Z0, _ => y
  | _, Z0 => x
  | Zpos a, Zpos b => Zpos (Pos.add a b)
  | Zpos a, Zneg b => zpos_sub a b
  | Zneg a, Zpos b => zpos_sub b a
  | Zneg a, Zneg b => Zneg (Pos.add a b)
  end.

Definition zopp (x : Z) : Z := match x with Z0 => Z0 | Zpos a => Zneg a | Zneg a => Zpos a end.
Definition zsub (x y : Z) : Z := zadd x (zopp y).
Definition zmax (x y : Z) : Z := if zleb x y then y else x.
Definition zmin (x y : Z) : Z := if zleb x y then x else y.

Lemma zcompare_eq x y : zcompare x y = Z.compare x y.
Proof. destruct x, y; reflexivity. Qed.
Lemma zleb_eq x y : zleb x y = Z.leb x y.
Proof. unfold zleb, Z.leb. now rewrite zcompare_eq. Qed.
Lemma zltb_eq x y : zltb x y = Z.ltb x y.
Proof. unfold zltb, Z.ltb. now rewrite zcompare_eq. Qed.
Lemma zeqb_eq x y : zeqb x y = Z.eqb x y.
Proof.
  unfold zeqb. rewrite zcompare_eq.
  destruct (Z.eqb_spec x y) as [->|Hn].
  - now rewrite Z.compare_refl.
  - destruct (Z.compare_spec x y); try reflexivity; contradiction.
Qed.
Lemma zpos_sub_eq x y : zpos_sub x y = Z.pos_sub x y.
Proof. unfold zpos_sub. now rewrite Z.pos_sub_spec. Qed.
Lemma zadd_eq x y : zadd x y = Z.add x y.
Proof. destruct x, y; cbn [zadd Z.add]; try reflexivity; apply zpos_sub_eq. Qed.

Lemma zopp_eq x : zopp x = Z.opp x.
Proof. destruct x; reflexivity. Qed.
Lemma zsub_eq x y : zsub x y = Z.sub x y.
Proof. unfold zsub. now rewrite zadd_eq, zopp_eq. Qed.
Lemma zmax_eq x y : zmax x y = Z.max x y.
Proof. unfold zmax. rewrite zleb_eq. destruct (Z.leb_spec x y); lia. Qed.
Lemma zmin_eq x y : zmin x y = Z.min x y.
Proof. unfold zmin. rewrite zleb_eq. destruct (Z.leb_spec x y); lia. Qed.

Global Hint Rewrite zleb_eq zltb_eq zeqb_eq zadd_eq zcompare_eq zopp_eq zsub_eq zmax_eq zmin_eq : zplain.
