(* List / association-list facts used by the vector-index proofs (C05/C06). *)
From Coq Require Import List Arith NArith Bool Lia.
From LV Require Import model.VecIndex.
Import ListNotations.
Open Scope N_scope.

(* ---------- set_nth / nth ---------- *)
Lemma nth_set_nth_eq {A} (d : A) l i x : nth i (set_nth d l i x) d = x.
Proof. revert l; induction i as [|i IH]; intros [|h t]; cbn [set_nth nth]; auto. Qed.
Lemma nth_set_nth_neq {A} (d : A) l i j x : i <> j -> nth j (set_nth d l i x) d = nth j l d.
Proof.
  revert l j; induction i as [|i IH]; intros [|h t] [|j] H; cbn [set_nth nth]; try reflexivity; try lia.
  - destruct j; reflexivity.
  - rewrite IH by lia. destruct j; reflexivity.
  - apply IH. lia.
Qed.
Lemma nth_set_nth {A} (d : A) l i j x : nth j (set_nth d l i x) d = if Nat.eqb j i then x else nth j l d.
Proof.
  destruct (Nat.eqb_spec j i) as [->|H]; [apply nth_set_nth_eq|apply nth_set_nth_neq; lia].
Qed.
Lemma set_nth_length {A} (d : A) l i x : length (set_nth d l i x) = Nat.max (length l) (S i).
Proof. revert l; induction i as [|i IH]; intros [|h t]; cbn [set_nth length]; try rewrite IH; cbn [length]; lia. Qed.
Lemma set_nth_length_in {A} (d : A) l i x : (i < length l)%nat -> length (set_nth d l i x) = length l.
Proof. intros H. rewrite set_nth_length. lia. Qed.

Lemma hb_get_set v i j x : hb_get (hb_set v i x) j = if Nat.eqb j i then x else hb_get v j.
Proof. apply nth_set_nth. Qed.
Lemma la_get_set v i j x : la_get (la_set v i x) j = if Nat.eqb j i then x else la_get v j.
Proof. apply nth_set_nth. Qed.
Lemma hb_get_repeat k i : hb_get (repeat (0, 0) k) i = (0, 0).
Proof. unfold hb_get. destruct (Nat.lt_ge_cases i k); [apply nth_repeat|]. apply nth_overflow. rewrite repeat_length. lia. Qed.
Lemma la_get_repeat k i : la_get (repeat 0 k) i = 0.
Proof. unfold la_get. destruct (Nat.lt_ge_cases i k); [apply nth_repeat|]. apply nth_overflow. rewrite repeat_length. lia. Qed.
Lemma nth_app_r_one {A} (l : list A) x d : nth (length l) (l ++ [x]) d = x.
Proof. rewrite app_nth2 by lia. rewrite Nat.sub_diag. reflexivity. Qed.
Lemma nth_app_l {A} (l l' : list A) i d : (i < length l)%nat -> nth i (l ++ l') d = nth i l d.
Proof. intros. apply app_nth1. assumption. Qed.

(* ---------- association lists ---------- *)
Lemma alookup_aput {A} k k' (v : A) l : alookup k (aput k' v l) = if k =? k' then Some v else alookup k l.
Proof. reflexivity. Qed.
Lemma alookup_aput_eq {A} k (v : A) l : alookup k (aput k v l) = Some v.
Proof. rewrite alookup_aput, N.eqb_refl. reflexivity. Qed.
Lemma alookup_aput_neq {A} k k' (v : A) l : k <> k' -> alookup k (aput k' v l) = alookup k l.
Proof. intros H. rewrite alookup_aput. destruct (N.eqb_spec k k'); [contradiction|reflexivity]. Qed.
Lemma alookup_In {A} k (v : A) l : alookup k l = Some v -> In (k, v) l.
Proof.
  induction l as [|[k' v'] l IH]; cbn [alookup]; [discriminate|].
  destruct (N.eqb_spec k k') as [->|]; [intros [= ->]; left; reflexivity|intros H; right; auto].
Qed.
Lemma alookup_None_notin {A} k (l : list (N * A)) : alookup k l = None -> ~ In k (map fst l).
Proof.
  induction l as [|[k' v'] l IH]; cbn [alookup map fst]; [intros _ []|].
  destruct (N.eqb_spec k k') as [->|Hne]; [discriminate|]. intros H [Hk|Hin]; [congruence|exact (IH H Hin)].
Qed.
Lemma alookup_notin_None {A} k (l : list (N * A)) : ~ In k (map fst l) -> alookup k l = None.
Proof.
  induction l as [|[k' v'] l IH]; cbn [alookup map fst]; [reflexivity|].
  intros H. destruct (N.eqb_spec k k') as [->|Hne]; [exfalso; apply H; left; reflexivity|].
  apply IH. intros Hin. apply H. right. exact Hin.
Qed.
Lemma alookup_Some_in_keys {A} k (v : A) l : alookup k l = Some v -> In k (map fst l).
Proof. intros H. apply alookup_In in H. apply (in_map fst) in H. exact H. Qed.

(* existsb as exists *)
Lemma existsb_ex {A} (f : A -> bool) l : existsb f l = true <-> exists x, In x l /\ f x = true.
Proof. apply existsb_exists. Qed.
Lemma existsb_nat_mem i l : existsb (Nat.eqb i) l = true <-> In i l.
Proof.
  rewrite existsb_exists. split.
  - intros (x & Hx & E). apply Nat.eqb_eq in E. subst. exact Hx.
  - intros H. exists i. split; [exact H|apply Nat.eqb_refl].
Qed.
Lemma existsb_N_mem i l : existsb (N.eqb i) l = true <-> In i l.
Proof.
  rewrite existsb_exists. split.
  - intros (x & Hx & E). apply N.eqb_eq in E. subst. exact Hx.
  - intros H. exists i. split; [exact H|apply N.eqb_refl].
Qed.

(* ---------- misc ---------- *)
Lemma nth_map_seq_gen {B} (f : nat -> B) n v d : (v < n)%nat -> nth v (map f (List.seq 0 n)) d = f v.
Proof.
  intros H. rewrite (nth_indep _ d (f 0%nat)) by (rewrite map_length, seq_length; exact H).
  rewrite map_nth. rewrite seq_nth by exact H. reflexivity.
Qed.
Lemma nth_repeat_false k i : nth i (repeat false k) false = false.
Proof. destruct (Nat.lt_ge_cases i k); [apply nth_repeat|]. apply nth_overflow. rewrite repeat_length. lia. Qed.
Lemma fold_add_zeros l a : (forall x, In x l -> x = 0) -> fold_left N.add l a = a.
Proof.
  revert a; induction l as [|x l IH]; intros a H; cbn [fold_left]; [reflexivity|].
  rewrite (H x (or_introl eq_refl)), N.add_0_r. apply IH. intros; apply H; right; assumption.
Qed.
Lemma wsum_repeat_false ws k : wsum ws (repeat false k) = 0.
Proof.
  unfold wsum. apply fold_add_zeros. intros x Hx. apply in_map_iff in Hx. destruct Hx as ([w c] & <- & Hin).
  apply in_combine_r in Hin. apply repeat_spec in Hin. subst. reflexivity.
Qed.
Lemma NoDup_app_one {A} (l : list A) x : NoDup l -> ~ In x l -> NoDup (l ++ [x]).
Proof.
  intros Hnd Hx. induction Hnd as [|y l Hy Hnd IH]; cbn [app]; [constructor; [intros []|constructor]|].
  constructor.
  - rewrite in_app_iff. intros [H|[H|[]]]; [contradiction|]. apply Hx. left. symmetry. exact H.
  - apply IH. intros H. apply Hx. right. exact H.
Qed.
