(* FEASIBILITY SKETCH written during the design round (see DESIGN.md, Appendix A).
   Not part of the framework. Model of flushableIterator.Next (tree-first merge, tombstone rule,
   prefix cut-off) and its specification; the last command evaluates the C22 iteration theorem's
   STATEMENT exhaustively on 217 728 small cases (a test of the statement, not its proof). *)
From Coq Require Import List Arith Bool.
Import ListNotations.

Definition key := list nat.
Fixpoint cmp (a b : key) : comparison :=
  match a, b with
  | [], [] => Eq | [], _ => Lt | _, [] => Gt
  | x :: a', y :: b' => match Nat.compare x y with Eq => cmp a' b' | c => c end
  end.
Definition leb_k a b := match cmp a b with Gt => false | _ => true end.
Definition ltb_k a b := match cmp a b with Lt => true | _ => false end.
Fixpoint has_prefix (p k : key) : bool :=
  match p, k with [], _ => true | _, [] => false | x :: p', y :: k' => (x =? y) && has_prefix p' k' end.

Definition val := nat.
Definition tree := list (key * option val).   (* strictly ascending *)
Definition par := list (key * val).            (* strictly ascending *)

(* the parent's own NewIterator(prefix,start): assumed correct for the underlying store *)
Definition par_iter (p s : key) (u : par) : par :=
  filter (fun kv => has_prefix p (fst kv) && leb_k (p ++ s) (fst kv)) u.
(* tree.Ceiling(prefix++start), or Left() when that key is empty *)
Definition tree_init (p s : key) (t : tree) : tree :=
  filter (fun kv => leb_k (p ++ s) (fst kv)) t.

Definition suitable (prefix : option key) (k : key) (prev : option key) : bool * bool :=
  match prefix with
  | Some p => if negb (has_prefix p k) then (false, false)
              else (match prev with None => true | Some pk => ltb_k pk k end, true)
  | None => (match prev with None => true | Some pk => ltb_k pk k end, true)
  end.

(* flushableIterator.Next, one call; state = (tree rest, parent rest, prevKey) *)
Fixpoint next (fuel : nat) (prefix : option key) (t : tree) (u : par) (prev : option key)
  : option ((key * val) * (tree * par * option key)) :=
  match fuel with 0 => None | S fuel' =>
  match t, u with
  | [], [] => None
  | (tk, tv) :: t', _ =>
      if (match u with [] => true | (pk, _) :: _ => leb_k tk pk end) then
        (* inner loop body on the tree node *)
        match tv with
        | Some v => let '(ok, tcont) := suitable prefix tk prev in
                    let t2 := if tcont then t' else [] in
                    if ok then Some ((tk, v), (t2, u, Some tk))
                    else next fuel' prefix t2 u prev
        | None => next fuel' prefix t' u (Some tk)
        end
      else
        match u with
        | [] => None (* unreachable *)
        | (pk, pv) :: u' =>
            let '(ok, pcont) := suitable prefix pk prev in
            let u2 := if pcont then u' else [] in
            if ok then Some ((pk, pv), (t, u2, Some pk)) else next fuel' prefix t u2 prev
        end
  | [], (pk, pv) :: u' =>
      let '(ok, pcont) := suitable prefix pk prev in
      let u2 := if pcont then u' else [] in
      if ok then Some ((pk, pv), ([], u2, Some pk)) else next fuel' prefix [] u2 prev
  end end.

Fixpoint collect (n : nat) prefix t u prev : list (key * val) :=
  match n with 0 => [] | S n' =>
    match next (S (length t + length u)) prefix t u prev with
    | None => [] | Some (kv, (t', u', prev')) => kv :: collect n' prefix t' u' prev' end end.

Definition iterate (prefix : option key) (s : key) (over : tree) (under : par) : list (key * val) :=
  let p := match prefix with Some p => p | None => [] end in
  collect (S (length over + length under)) prefix (tree_init p s over) (par_iter p s under) None.

(* specification: overlay wins, tombstones delete *)
Fixpoint merge (fuel : nat) (t : tree) (u : par) : par :=
  match fuel with 0 => [] | S f =>
  match t, u with
  | [], _ => u
  | (tk, tv) :: t', [] => (match tv with Some v => [(tk, v)] | None => [] end) ++ merge f t' []
  | (tk, tv) :: t', (pk, pv) :: u' =>
      match cmp tk pk with
      | Lt => (match tv with Some v => [(tk, v)] | None => [] end) ++ merge f t' u
      | Eq => (match tv with Some v => [(tk, v)] | None => [] end) ++ merge f t' u'
      | Gt => (pk, pv) :: merge f t u'
      end
  end end.
Definition spec (prefix : option key) (s : key) (over : tree) (under : par) :=
  let p := match prefix with Some p => p | None => [] end in
  filter (fun kv => has_prefix p (fst kv) && leb_k (p ++ s) (fst kv)) (merge (S (length over + length under)) over under).

(* exhaustive small-scope sanity test of the STATEMENT (a test, not the proof) *)
Definition universe : list key := [[0]; [0;255]; [1]; [255]; [255;255]].   (* ascending *)
Fixpoint subsets_par (l : list key) : list par :=
  match l with [] => [[]] | k :: l' => let r := subsets_par l' in r ++ map (fun x => (k, 7) :: x) r end.
Fixpoint overlays (l : list key) : list tree :=
  match l with [] => [[]] | k :: l' => let r := overlays l' in r ++ map (fun x => (k, None) :: x) r ++ map (fun x => (k, Some 9) :: x) r end.
Definition prefixes : list (option key) := [None; Some []; Some [0]; Some [1]; Some [255]; Some [255;255]; Some [0;255]].
Definition starts : list key := [[]; [0]; [255]; [1;0]].
Definition eqb_res (a b : list (key * val)) : bool :=
  (length a =? length b) && forallb (fun ab => match cmp (fst (fst ab)) (fst (snd ab)) with Eq => snd (fst ab) =? snd (snd ab) | _ => false end) (combine a b).
Definition all_ok : bool :=
  forallb (fun under => forallb (fun over => forallb (fun p => forallb (fun s =>
     eqb_res (iterate p s over under) (spec p s over under)) starts) prefixes) (overlays universe)) (subsets_par universe).
Definition ncases := length (subsets_par universe) * length (overlays universe) * length prefixes * length starts.
Time Eval vm_compute in (ncases, all_ok).
