(* FEASIBILITY SKETCH written during the design round (see DESIGN.md, Appendix A).
   Not part of the framework, not referenced by any check; it compiles with
   coqc -Q . "" under Coq 8.16.1 and prints "Closed under the global context".
   The real development re-states these lemmas over the executable specification. *)
From Coq Require Import List Arith Lia Bool.
Import ListNotations.
Require Import sketch_WSum.

Section Bft.
Variable vals : list nat.
Variable w : nat -> nat.
Hypothesis vals_nodup : NoDup vals.
Notation wsum := (wsum vals w).
Notation W := (W vals w).

Variable evs : list nat.                  (* all events of the DAG *)
Variable creator seq : nat -> nat.
Variable leb : nat -> nat -> bool.        (* ancestor-or-self *)
Hypothesis leb_refl : forall x, leb x x = true.
Hypothesis leb_trans : forall x y z, leb x y = true -> leb y z = true -> leb x z = true.
Hypothesis leb_in : forall x y, In y evs -> leb x y = true -> In x evs.   (* ancestors of known events are known *)

Variable q : nat.
Hypothesis q_gt : 3 * q > 2 * W.

(* a sees two different events of v with the same seq *)
Definition seesfork (a v : nat) : bool :=
  existsb (fun x => existsb (fun y => negb (x =? y) && (creator x =? v) && (creator y =? v)
                                 && (seq x =? seq y) && leb x a && leb y a) evs) evs.

Definition between (b a v : nat) : bool :=
  existsb (fun x => (creator x =? v) && leb b x && leb x a) evs.

Definition fc (a b : nat) : bool :=
  negb (seesfork a (creator b)) &&
  (q <=? wsum (fun v => negb (seesfork a v) && between b a v)).

(* forkers and the honest-chain property (derived from the self-parent structure in the real development) *)
Variable byz : nat -> bool.
Hypothesis byz_small : 3 * wsum byz < W.
Hypothesis honest_chain : forall v x y, In v vals -> byz v = false -> In x evs -> In y evs ->
  creator x = v -> creator y = v -> leb x y = true \/ leb y x = true.

Lemma seesfork_mono a a' v : leb a a' = true -> seesfork a v = true -> seesfork a' v = true.
Proof.
  unfold seesfork. intros Hle H. apply existsb_exists in H as [x [Hx H]].
  apply existsb_exists in H as [y [Hy H]].
  apply existsb_exists. exists x; split; auto. apply existsb_exists. exists y; split; auto.
  repeat (apply andb_prop in H as [H ?]). repeat (apply andb_true_intro; split); eauto.
Qed.

(* r1 r2 : "fork pair" = whoever sees both sees a fork of their creator *)
Definition forkpair r1 r2 := creator r1 = creator r2 /\
  forall a, leb r1 a = true -> leb r2 a = true -> seesfork a (creator r1) = true.

Lemma fork_exclusion r1 r2 x y : forkpair r1 r2 -> fc x r1 = true -> fc y r2 = true -> False.
Proof.
  intros [Hc Hfp] Hx Hy. unfold fc in *.
  apply andb_prop in Hx as [Hnx Hqx]. apply andb_prop in Hy as [Hny Hqy].
  apply Nat.leb_le in Hqx, Hqy.
  pose proof (quorum_intersection vals w q _ _ q_gt Hqx Hqy) as Hint.
  destruct (exists_outside vals w byz _ byz_small Hint) as [v [Hv [HP Hb]]].
  apply andb_prop in HP as [H1 H2]. apply andb_prop in H1 as [_ B1]. apply andb_prop in H2 as [_ B2].
  unfold between in *. apply existsb_exists in B1 as [x1 [Hx1 B1]]. apply existsb_exists in B2 as [x2 [Hx2 B2]].
  repeat (apply andb_prop in B1 as [B1 ?]). repeat (apply andb_prop in B2 as [B2 ?]).
  apply Nat.eqb_eq in B1, B2.
  destruct (honest_chain v x1 x2 Hv Hb Hx1 Hx2 B1 B2) as [Hle|Hle].
  - (* x1 <= x2 <= y : y sees r1 and r2 *)
    assert (seesfork y (creator r1) = true).
    { apply (seesfork_mono x2); auto. apply Hfp; eauto. }
    rewrite Hc in *. rewrite H3 in Hny. discriminate.
  - assert (seesfork x (creator r1) = true).
    { apply (seesfork_mono x1); auto. apply Hfp; eauto. }
    rewrite H3 in Hnx. discriminate.
Qed.

(* ---------------- election ---------------- *)
Variable roots : nat -> list nat.
Hypothesis roots_in : forall f r, In r (roots f) -> In r evs.
Hypothesis roots_fork : forall f r1 r2, In r1 (roots f) -> In r2 (roots f) -> r1 <> r2 ->
  creator r1 = creator r2 -> forkpair r1 r2.
Definition sees_quorum (r : nat) (f : nat) : Prop :=
  q <= wsum (fun u => existsb (fun r' => (creator r' =? u) && fc r r') (roots f)).
Hypothesis roots_quorum : forall f r, In r (roots (S f)) -> sees_quorum r f.

Variable f0 : nat.     (* frame being decided *)
Variable subj : nat.   (* subject validator *)

Definition obs (r : nat) (f : nat) : list nat := filter (fun r' => fc r r') (roots f).
Definition voters (l : list nat) (P : nat -> bool) (u : nat) : bool :=
  existsb (fun r' => (creator r' =? u) && P r') l.

Fixpoint vote (k : nat) (r : nat) : bool :=
  match k with
  | 0 => false
  | 1 => existsb (fun r0 => (creator r0 =? subj) && fc r r0) (roots f0)
  | S k' => let o := obs r (f0 + k') in
            wsum (voters o (fun r' => negb (vote k' r'))) <=? wsum (voters o (vote k'))
  end.

Definition yesW k r := wsum (voters (obs r (f0 + k)) (vote k)).
Definition noW  k r := wsum (voters (obs r (f0 + k)) (fun r' => negb (vote k r'))).
Definition decides (k : nat) (r : nat) (b : bool) : Prop :=   (* r at round k+1 decides b *)
  q <= if b then yesW k r else noW k r.

Lemma vote_S k r : 1 <= k -> vote (S k) r = (noW k r <=? yesW k r).
Proof. destruct k; [lia|]. intros _. reflexivity. Qed.

Lemma visible_unique f r1 r2 x y : In r1 (roots f) -> In r2 (roots f) -> creator r1 = creator r2 ->
  fc x r1 = true -> fc y r2 = true -> r1 = r2.
Proof.
  intros H1 H2 Hc Hx Hy. destruct (Nat.eq_dec r1 r2) as [|Hne]; auto.
  exfalso. eapply fork_exclusion; eauto.
Qed.

Lemma voters_obs_elim r f P u : voters (obs r f) P u = true ->
  exists r', In r' (roots f) /\ fc r r' = true /\ creator r' = u /\ P r' = true.
Proof.
  unfold voters, obs. intros H. apply existsb_exists in H as [r' [Hin H]].
  apply filter_In in Hin as [Hin Hfc]. apply andb_prop in H as [Hc HP]. apply Nat.eqb_eq in Hc. eauto.
Qed.
Lemma voters_obs_intro r f (P : nat -> bool) u r' : In r' (roots f) -> fc r r' = true -> creator r' = u -> P r' = true ->
  voters (obs r f) P u = true.
Proof.
  intros. unfold voters, obs. apply existsb_exists. exists r'. split.
  - apply filter_In; auto.
  - apply andb_true_intro; split; auto. apply Nat.eqb_eq; auto.
Qed.

(* the core counting step, generic in the two vote predicates *)
Lemma core_count f r r' (P Pn : nat -> bool) :
  (forall x, P x = true -> Pn x = true -> False) ->
  q <= wsum (voters (obs r f) P) -> sees_quorum r' f ->
  2 * q <= W + wsum (voters (obs r' f) P) /\ wsum (voters (obs r' f) Pn) + q <= W.
Proof.
  intros Hex HSb HQ. unfold sees_quorum in HQ. split.
  - pose proof (wsum_l_incl_excl w vals (voters (obs r f) P)
       (fun u => existsb (fun r'0 => (creator r'0 =? u) && fc r' r'0) (roots f))) as IE.
    pose proof (wsum_le_W vals w (fun v => voters (obs r f) P v || existsb (fun r'0 => (creator r'0 =? v) && fc r' r'0) (roots f))).
    assert (wsum (fun v => voters (obs r f) P v && existsb (fun r'0 => (creator r'0 =? v) && fc r' r'0) (roots f))
            <= wsum (voters (obs r' f) P)).
    { apply wsum_l_mono. intros u _ Hu. apply andb_prop in Hu as [Hu1 Hu2].
      apply voters_obs_elim in Hu1 as [r1 [I1 [F1 [C1 P1]]]].
      apply existsb_exists in Hu2 as [r2 [I2 Hu2]]. apply andb_prop in Hu2 as [C2 F2]. apply Nat.eqb_eq in C2.
      assert (r1 = r2) by (eapply visible_unique; eauto; congruence). subst r2.
      eapply voters_obs_intro; eauto. }
    unfold sketch_WSum.wsum in *. lia.
  - pose proof (wsum_l_incl_excl w vals (voters (obs r f) P) (voters (obs r' f) Pn)) as IE.
    pose proof (wsum_le_W vals w (fun v => voters (obs r f) P v || voters (obs r' f) Pn v)).
    assert (wsum (fun v => voters (obs r f) P v && voters (obs r' f) Pn v) = 0).
    { assert (forall v, (voters (obs r f) P v && voters (obs r' f) Pn v) = false).
      { intros u. destruct (voters (obs r f) P u) eqn:E1; auto. destruct (voters (obs r' f) Pn u) eqn:E2; auto.
        apply voters_obs_elim in E1 as [r1 [I1 [F1 [C1 P1]]]]. apply voters_obs_elim in E2 as [r2 [I2 [F2 [C2 P2]]]].
        assert (r1 = r2) by (eapply visible_unique; eauto; congruence). subst r2.
        exfalso; eauto. }
      unfold sketch_WSum.wsum. clear -H0. induction vals as [|v l IH]; simpl; auto. rewrite H0. simpl. auto. }
    unfold sketch_WSum.wsum in *. lia.
Qed.

(* a decision at round k+1 forces every vote at round k+1 *)
Lemma decision_forces_round k r b r' : 1 <= k ->
  In r (roots (f0 + S k)) -> decides k r b -> In r' (roots (f0 + S k)) -> vote (S k) r' = b.
Proof.
  intros Hk Hr Hd Hr'. rewrite vote_S by assumption.
  rewrite <- plus_n_Sm in Hr'. pose proof (roots_quorum _ _ Hr') as HQ.
  unfold decides in Hd. unfold yesW, noW in *. destruct b.
  - destruct (core_count (f0 + k) r r' (vote k) (fun x => negb (vote k x))) as [A B]; auto.
    { intros x H1 H2. rewrite H1 in H2. discriminate. }
    apply Nat.leb_le. lia.
  - destruct (core_count (f0 + k) r r' (fun x => negb (vote k x)) (vote k)) as [A B]; auto.
    { intros x H1 H2. rewrite H2 in H1. discriminate. }
    apply Nat.leb_gt. lia.
Qed.

(* ... and by induction every later round *)
Lemma all_vote_then_next k b : 1 <= k ->
  (forall r, In r (roots (f0 + k)) -> vote k r = b) ->
  forall r', In r' (roots (f0 + S k)) -> vote (S k) r' = b /\ decides k r' b.
Proof.
  intros Hk Hall r' Hr'. rewrite vote_S by assumption.
  rewrite <- plus_n_Sm in Hr'. pose proof (roots_quorum _ _ Hr') as HQ. unfold sees_quorum in HQ.
  unfold decides, yesW, noW.
  assert (Hb : wsum (fun u => existsb (fun r'0 => (creator r'0 =? u) && fc r' r'0) (roots (f0 + k)))
               <= wsum (voters (obs r' (f0 + k)) (fun x => if b then vote k x else negb (vote k x)))).
  { apply wsum_l_mono. intros u _ Hu. apply existsb_exists in Hu as [r2 [I2 Hu]]. apply andb_prop in Hu as [C2 F2].
    apply Nat.eqb_eq in C2. eapply voters_obs_intro; eauto. rewrite (Hall _ I2). destruct b; reflexivity. }
  assert (Hn : wsum (voters (obs r' (f0 + k)) (fun x => if b then negb (vote k x) else vote k x)) = 0).
  { assert (forall u, voters (obs r' (f0 + k)) (fun x => if b then negb (vote k x) else vote k x) u = false).
    { intros u. destruct (voters _ _ u) eqn:E; auto. apply voters_obs_elim in E as [r1 [I1 [F1 [C1 P1]]]].
      rewrite (Hall _ I1) in P1. destruct b; discriminate. }
    unfold sketch_WSum.wsum. clear -H. induction vals as [|v l IH]; simpl; auto. rewrite H. simpl. auto. }
  assert (Hq0 : 0 < q) by lia.
  destruct b; simpl in *.
  - split; [apply Nat.leb_le|]; unfold sketch_WSum.wsum in *.
    + replace (wsum_l w vals (voters (obs r' (f0 + k)) (fun r'0 => negb (vote k r'0)))) with 0 by auto. lia.
    + etransitivity; [exact HQ|]. etransitivity; [exact Hb|]. apply wsum_l_mono. intros u _ Hu. exact Hu.
  - split; [apply Nat.leb_gt|]; unfold sketch_WSum.wsum in *.
    + replace (wsum_l w vals (voters (obs r' (f0 + k)) (vote k))) with 0.
      lia.
    + lia.
Qed.
End Bft.
