(* FEASIBILITY SKETCH written during the design round (see DESIGN.md, Appendix A).
   Not part of the framework, not referenced by any check; it compiles with
   coqc -Q . "" under Coq 8.16.1 and prints "Closed under the global context".
   The real development re-states these lemmas over the executable specification. *)
From Coq Require Import List Arith Lia Bool.
Import ListNotations.

Section WSum.
Variable vals : list nat.
Variable w : nat -> nat.
Hypothesis vals_nodup : NoDup vals.

Fixpoint wsum_l (l : list nat) (P : nat -> bool) : nat :=
  match l with [] => 0 | v :: l' => (if P v then w v else 0) + wsum_l l' P end.
Definition wsum := wsum_l vals.
Definition W := wsum (fun _ => true).

Lemma wsum_l_incl_excl l P Q :
  wsum_l l P + wsum_l l Q = wsum_l l (fun v => P v && Q v) + wsum_l l (fun v => P v || Q v).
Proof. induction l as [|v l IH]; simpl; [reflexivity|]. destruct (P v), (Q v); simpl; lia. Qed.

Lemma wsum_l_mono l P Q : (forall v, In v l -> P v = true -> Q v = true) -> wsum_l l P <= wsum_l l Q.
Proof.
  induction l as [|v l IH]; simpl; intros H; [lia|].
  assert (wsum_l l P <= wsum_l l Q) by (apply IH; intros; apply H; auto).
  destruct (P v) eqn:HP; [rewrite (H v (or_introl eq_refl) HP)|]; destruct (Q v); lia.
Qed.

Lemma wsum_le_W P : wsum P <= W.
Proof. apply wsum_l_mono; auto. Qed.

Lemma wsum_l_pos_ex l P : 0 < wsum_l l P -> exists v, In v l /\ P v = true.
Proof.
  induction l as [|v l IH]; simpl; [lia|]. destruct (P v) eqn:HP.
  - intros _. exists v; auto.
  - intros H. destruct IH as [u [Hu Pu]]; [lia|]. exists u; auto.
Qed.

(* two sets each above 2/3 intersect in more than 1/3 *)
Lemma quorum_intersection q P Q : 3 * q > 2 * W -> q <= wsum P -> q <= wsum Q ->
  3 * wsum (fun v => P v && Q v) > W.
Proof.
  intros Hq HP HQ. pose proof (wsum_l_incl_excl vals P Q) as H.
  pose proof (wsum_le_W (fun v => P v || Q v)). unfold wsum in *. lia.
Qed.

Lemma exists_outside B P : 3 * wsum B < W -> 3 * wsum P > W -> exists v, In v vals /\ P v = true /\ B v = false.
Proof.
  intros HB HP.
  assert (0 < wsum (fun v => P v && negb (B v))).
  { pose proof (wsum_l_incl_excl vals (fun v => P v && negb (B v)) B) as H.
    assert (wsum P <= wsum (fun v => P v && negb (B v) || B v)).
    { apply wsum_l_mono. intros v _ Hv. rewrite Hv. destruct (B v); reflexivity. }
    assert (wsum (fun v => (P v && negb (B v)) && B v) = 0).
    { unfold wsum. clear. induction vals as [|v l IH]; simpl; auto. destruct (P v), (B v); simpl; auto. }
    unfold wsum in *. lia. }
  destruct (wsum_l_pos_ex vals _ H) as [v [Hv Hp]]. exists v. 
  apply andb_prop in Hp. destruct Hp as [Hp Hb]. rewrite negb_true_iff in Hb. auto.
Qed.
End WSum.
