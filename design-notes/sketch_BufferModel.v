(* FEASIBILITY SKETCH written during the design round (see DESIGN.md, Appendix A).
   Not part of the framework. A faithful model of EventsBuffer.pushEvent (stale snapshot passed
   down the recursion); the two Eval lines print the callback log of the C14 witness on the
   current code (second Process of copy 13 after its release) and with the intended repair. *)
From Coq Require Import List Arith Bool.
Import ListNotations.

(* entry = one pushed copy *)
Record entry := { cid : nat; eid : nat; pars : list nat; size : nat }.
Inductive out := OCheck (c : nat) | OProcess (c : nat) | OReleased (c : nat) (err : nat).
(* err: 0 ok, 1 already connected, 2 check failed, 3 process failed, 4 spilled, 5 duplicate *)

Record st := { inc : list entry;            (* oldest first *)
               connected : list nat;
               released : list nat;          (* copy ids already released *)
               errs : list (nat * nat) }.    (* copy -> first error *)

Section B.
Variable fails_check fails_process : nat -> bool.   (* by event id *)

Definition mem x l := existsb (Nat.eqb x) l.
Definition drop (s : st) (c err : nat) : st :=
  if existsb (fun p => fst p =? c) (errs s) then s
  else {| inc := inc s; connected := connected s; released := released s; errs := (c, err) :: errs s |}.
Definition err_of s c := match find (fun p => fst p =? c) (errs s) with Some p => snd p | None => 0 end.
Definition release (s : st) (c : nat) : st * list out :=
  if mem c (released s) then (s, [])
  else ({| inc := inc s; connected := connected s; released := c :: released s; errs := errs s |}, [OReleased c (err_of s c)]).
Definition remove_inc (s : st) (e : nat) : st :=
  {| inc := filter (fun x => negb (eid x =? e)) (inc s); connected := connected s; released := released s; errs := errs s |}.
Definition add_inc (s : st) (x : entry) : st :=
  {| inc := inc s ++ [x]; connected := connected s; released := released s; errs := errs s |}.
Definition connect (s : st) (e : nat) : st :=
  {| inc := inc s; connected := e :: connected s; released := released s; errs := errs s |}.

(* pushEvent(e, snapshot, recheck) with the stale snapshot passed down; [fixed] = skip released children *)
Variable fixed : bool.
Fixpoint push (fuel : nat) (s : st) (x : entry) (snap : option (list entry)) (recheck : bool) : st * list out * bool :=
  match fuel with 0 => (s, [], false) | S fuel' =>
  if mem (eid x) (connected s) then
    let s1 := remove_inc s (eid x) in
    let s2 := if recheck then s1 else drop s1 (cid x) 1 in
    let '(s3, o) := release s2 (cid x) in (s3, o, false)
  else if negb (forallb (fun p => mem p (connected s)) (pars x)) then
    ((if recheck then s else add_inc s x), [], false)
  else
    (* processCompleteEvent *)
    let '(s1, o1, ok) :=
      if fails_check (eid x) then (drop s (cid x) 2, [OCheck (cid x)], false)
      else if fails_process (eid x) then (drop s (cid x) 3, [OCheck (cid x); OProcess (cid x)], false)
      else (connect s (eid x), [OCheck (cid x); OProcess (cid x)], true) in
    let '(s2, o2) := release s1 (cid x) in
    let '(s3, o3) :=
      if ok then
        let snap' := match snap with Some l => l | None => inc s2 end in
        fold_left (fun acc child =>
           let '(sa, oa) := acc in
           if mem (eid x) (pars child) && negb (fixed && mem (cid child) (released sa)) then
             let '(sb, ob, _) := push fuel' sa child (Some snap') true in (sb, oa ++ ob)
           else acc) snap' (s2, [])
      else (s2, []) in
    (remove_inc s3 (eid x), o1 ++ o2 ++ o3, ok)
  end.
End B.

Definition s0 := {| inc := []; connected := []; released := []; errs := [] |}.
Definition run fixed fc fp (l : list entry) :=
  fold_left (fun acc x => let '(s, o) := acc in let '(s', o', _) := push fc fp fixed 50 s x None false in (s', o ++ o')) l (s0, []).
(* witness: e=1; c2=2 {1}; c=3 {1,2}; Process(c) fails; push c2, c, e *)
Definition w := [ {| cid := 12; eid := 2; pars := [1]; size := 1 |}; {| cid := 13; eid := 3; pars := [1;2]; size := 1 |}; {| cid := 11; eid := 1; pars := []; size := 1 |} ].
Eval vm_compute in snd (run false (fun _ => false) (fun e => e =? 3) w).
Eval vm_compute in snd (run true (fun _ => false) (fun e => e =? 3) w).
